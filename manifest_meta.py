HOOK_COMMITS = ["75c4ba1", "a6cb873", "8a35c75", "5482b4f", "5942103", "1f599f2", "ed945f7", "1a1d180", "687c425"]

NOT_APPLICABLE_REASONS = {}

_EXPL = ("Exploration, not proof: the verdict is 'held on the executions of this run'; the evidence file lists what "
         "the monitors actually observed (cases, events, distinct states / interleavings).")

META = {
    "C01": {
        "technique": "runtime monitoring: real reconciliation sessions between two real stores driven message by message; final dumps compared with the reference-model join, message budget, follow-up session, mirrored counters; one case in three also through the real session drivers (run_alice / BobState) behind store actors",
        "design_ref": "DESIGN.md §5 C01, §2.2",
        "level_text": "Pairs of reachable replica states (built through the real insert paths) are reconciled with either side initiating, on memory/file stores and under the split-factor / max-set-size grid (hook H2). Both dumps must equal the executable specification's join of the two start dumps, within a logical message budget; the next session must carry no entry. " + _EXPL,
        "level_note": "Trusts the harness's replica specification (self-checked on every case) and the full-scan dump. Bounds: <=24 (quick) / 64 (thorough) entries per side, <=4 authors, keys <=4 bytes.",
    },
    "C02": {
        "technique": "runtime monitoring: reference-model comparison (sequential spec + closed form) after every step of seeded permuted histories on the real store",
        "design_ref": "DESIGN.md §5 C02, §2.2",
        "level_text": "Every generated multiset of entries is applied to the real store in at least six orders (with re-offers, through the remote and the local path, memory and file store); result and full dump are compared with an independent executable specification after every single step. " + _EXPL,
        "level_note": "Trusts: the harness's 60-line replica specification (self-checked sequential == closed form on every case), determinism of ed25519, the full-scan query used for dumps.",
    },
    "C03": {
        "technique": "runtime monitoring: byte-level tampering of validly signed entries presented on both ingress paths of a real store actor; state, subscriber channel, acceptance counter and indexes compared with the oracle's verdict; cases in which the node's clock steps back",
        "design_ref": "DESIGN.md §5 C03",
        "level_text": "22 kinds of forged / foreign / future / malformed entries (the harness knows the verdict because it built them) are mixed with valid entries at every position of crafted reconciliation messages and presented as single remote inserts, under a fixed clock (hook H1). Nothing unacceptable may be stored, counted or announced; valid entries of the same message must still be applied; the actor must survive. " + _EXPL,
        "level_note": "Trusts the hand-written postcard mirror encoder (self-checked against the crate on real entries). Acceptability by supersession is judged with the replica specification over the dump actually held.",
    },
    "C04": {
        "technique": "runtime monitoring: seeded fault-injecting scheduler over 2..5 real replicas (lossy/duplicating/reordering broadcast, cut sessions, restarts, skewed clocks), then bounded-progress closing rounds; dumps compared with the merge of accepted writes; plus a swarm of complete docs nodes on loopback (real gossip, QUIC sessions) judged at the client API and event boundary",
        "design_ref": "DESIGN.md §5 C04",
        "level_text": "Eventual consistency is decided in a bounded-progress form: after faults stop, rounds of complete sessions over a connected pair set must reach a round that transfers nothing within diameter+2 rounds, and then every replica must equal the specification's merge of all acknowledged local writes; at every step no replica may hold an entry nobody wrote. Light mode uses the raw replica API, actor mode the real session drivers over in-memory pipes. " + _EXPL,
        "level_note": "Unbounded 'eventually' is out of reach of runtime monitoring; only the bounded form is decided. Clock skew is kept within +-4 minutes (beyond the 10 minute bound convergence is not promised).",
    },
    "C05": {
        "technique": "runtime monitoring: reference evaluator over the dump actually held, compared with the real query engine across the product of query dimensions",
        "design_ref": "DESIGN.md §5 C05",
        "level_text": "States are built by histories with prefix deletions next to a second document; hundreds of queries per state over kind x author x key filter (held keys, their prefixes, ..FF forms, successors) x sort x direction x include-empty x offset x limit are compared with an independent evaluator; point lookups and the two access paths are cross-checked. " + _EXPL,
        "level_note": "Ties on the newest timestamp in latest-per-key queries are accepted on any maximal entry; windowed latest-per-key queries are compared with the window of the unwindowed result of the same store.",
    },
    "C06": {
        "technique": "runtime monitoring with fault injection: crash images (file copied without commit, and real SIGKILLs) reopened and compared with the states a shadow instance passed through; age-based commit forced at every internal store access (hook H6); child processes opening old-format store files, and child processes starting a persistent node and changing its default author, killed by strace on entry to each file-system call; the same histories through the store actor with images inside the access callback, after acknowledged flushes and after shutdown",
        "design_ref": "DESIGN.md §5 C06, Appendix C",
        "level_text": "For every operation of every history: an image after the call, an image at every internal store access with the auto-commit forced there (all accesses, and single placements), plus killed child processes. The reopened image must open, equal a shadow state between the last acknowledged flush and the operation in progress, and be internally coherent (lookups, both scans, heads). Enumerates crash points and commit placements of the generated histories; not a proof over all histories.",
        "level_note": "Covers process death (what the kernel keeps of the file), not power loss; redb's fsync discipline is trusted. Operations are single store calls; multi-entry reconciliation messages are not treated as one atomic operation.",
    },
    "C07": {
        "technique": "runtime monitoring: capability lattice model (none<read<write, never decreasing) compared with the real store and store actor over random import/open/close/reopen/write histories; a complete node driven through its client layer (DocsApi / Doc) with every reply compared with a sequential specification",
        "design_ref": "DESIGN.md §5 C07",
        "level_text": "Random sequences over three documents of capability imports, opens, closes, store reopen, local write attempts, valid remote inserts, exports and foreign merges, through the store and through the actor; every result and the listed capability kinds must match the model. " + _EXPL,
        "level_note": "Trusts the three-valued capability model; <=30 steps per history.",
    },
    "C08": {
        "technique": "runtime monitoring / differential execution: the crate's own reconciliation routine driven over a harness-written ordered map (hook H3) versus the redb stores; transcripts, final sets and every storage primitive compared",
        "design_ref": "DESIGN.md §5 C08",
        "level_text": "For the same two entry sets, sessions on memory redb, file redb and a plain BTreeMap must produce byte-identical message sequences and final sets under the parameter grid; first key, ranges (x<y, x>y, x=y, bounds in other documents), fingerprints, prefix lookups and prefix removals are compared with the ordered-map definitions. " + _EXPL,
        "level_note": "Entry sets are replica states (closed form of random offers): over sets that violate the prefix rule sessions need not terminate on any backend. The reference map is written from the trait documentation.",
    },
    "C09": {
        "technique": "runtime monitoring: round-trip and hostile-input monitors over every decoder with panic capture; independent hand-written postcard encoder and pinned snapshots; (thorough) Miri and valgrind memcheck sub-runs",
        "design_ref": "DESIGN.md §5 C09",
        "level_text": "Frames of real sessions are re-split at every byte / random split sets and must decode to the same messages; every truncation must be an error or a prefix; oversized lengths are errors; single-byte corruptions and random strings through frames, protocol messages, signed entries (all accessors touched), head reports, tickets, capabilities, filters, policies, queries may return a value or an error, never panic. Pinned byte encodings are re-derived by an independent encoder. " + _EXPL,
        "level_note": "Trusts the hand-written encoder and the three hex snapshots of the test-suite as the definition of the pinned encodings.",
    },
    "C10": {
        "technique": "runtime monitoring with fault enumeration: every adversarial frame sequence up to length 3 (thorough 4) against the real initiator and acceptor drivers over in-memory pipes; real<->real sessions with a local fault before every frame; shutdown races; a complete docs node on loopback against a hand-driven peer (declined requests must leave the store unchanged); mirrored session reports in a swarm of complete nodes",
        "design_ref": "DESIGN.md §5 C10",
        "level_text": "Exhaustive over the 15-letter frame alphabet up to the bounded length (x4 accept decisions), plus every fault position (close replica, sync off, actor shutdown, cut after / inside frame) of generated real sessions, plus requests racing with actor shutdown. Each side must end with Ok or a reported error, the outcome must be collectable, declines must not change the store, counters mirror on success, the actor must stay responsive. Non-termination is decided on exhausted inputs (streams closed, actor answering), not on a deadline.",
        "level_note": "The mirror equation is not judged when the harness cut the stream cleanly at a frame boundary: end-of-stream is the protocol's end marker and only an in-memory pipe can produce it on both sides mid-session.",
    },
    "C11": {
        "technique": "runtime monitoring: seeded scheduler over the real coordination state and completion handlers of two/three real live actors (hook H5), with a network model that owns only in-flight objects; invariants S1-S5 checked after every event, incl. histories in which a node leaves and rejoins with a session in flight; plus a complete docs node on loopback QUIC driven by a hand-written hostile peer and judged at the wire and event boundary; plus invariants on the coordination state of running live actors read through a snapshot query (hook H8): a busy slot always has a dial / accept task in flight",
        "design_ref": "DESIGN.md §5 C11, Appendix A",
        "level_text": "Random schedules of dial decisions, request delivery/loss, decline replies delivered/lost, and independent successful or failed completion of both session ends (including the acceptor's bookkeeping being overtaken by a re-dial), in both id orders. After every event: at most one session in progress per pair, crossing dials resolve to exactly one, refused reports lead to exactly one resync, nothing in flight implies both slots idle and a probe dial is accepted, unsynced documents are declined as not found. Net mode runs the real accepting stack (net::handle_connection inside the running engine) against a peer that holds sessions open, dials again, and ends declined connections orderly, abruptly, by reset or by stop: no request may be accepted while an earlier accepted session still answers, no end of session may be reported for a session never allowed, and once every accepted session was reported finished the next request must be accepted. " + _EXPL,
        "level_note": "Progress ('never permanently busy') is decided at quiescent points of bounded histories (<=6 dials, <=14/24 events). The network model imposes only causality; handlers are invoked directly, not through the actor's select loop.",
    },
    "C12": {
        "technique": "runtime monitoring: subscriber channels drained after every acknowledged request of a real store actor; observational oracle (before/after lookups) for single entries, specification prediction for multi-entry messages; event streams of complete docs nodes in a swarm, missing events judged behind a fence write; the client's event subscriptions on a complete node driven through its client layer (api mode); a subscriber that takes nothing out for seconds",
        "design_ref": "DESIGN.md §5 C12",
        "level_text": "Histories of local inserts, deletions, remote inserts, single- and multi-entry reconciliation messages (with invalid entries) and sessions in which a local write lands between two messages, with up to four subscribers joining, unsubscribing and dropping receivers and changing download policies; one case in eight has a slow subscriber (bounded channel drained with a delay) and callers that give up on requests while the actor waits in event delivery, judged against the final replica content. Exactly the applied entries produce exactly one event per current subscriber, with the right kind, peer, status, flag and order. " + _EXPL,
        "level_note": "'Applied' is read off the call result and lookups, so a defect of the merge rules does not masquerade as an event defect; the download flag oracle is C15's matcher.",
    },
    "C13": {
        "technique": "runtime monitoring: per-step invariant 'heads == per-author maximum of the dump actually held' and news-count oracle over histories with decreasing arrival, removal and re-creation; size-limit oracle for head encodings; hand-encoded wire reports naming an author twice",
        "design_ref": "DESIGN.md §5 C13",
        "level_text": "After every step of random histories on two neighbouring documents the reported heads must equal the per-author maxima of the dump and has_news_for_us must count exactly the unknown or strictly newer authors of probe reports; head sets with many shared timestamps must round-trip, and under every limit keep the newest heads that fit. " + _EXPL,
        "level_note": "On equal timestamps any head key is accepted; limit 0 is excluded (the empty list needs one byte).",
    },
    "C14": {
        "technique": "runtime monitoring: sequential specification of the actor compared step by step; concurrent client histories recorded at the client boundary and checked for linearizability (per-document DFS) against the same specification; author deletion / import between requests; (thorough) ThreadSanitizer sub-run; a complete node driven through its client layer (DocsApi / Doc): every reply and status() after every step compared with a sequential specification",
        "design_ref": "DESIGN.md §5 C14, Appendix B",
        "level_text": "Random request sequences over two documents (open/close counting, sync switch, gated operations, removal, shutdown) are compared reply by reply and by get_state with an executable specification; histories of 2-4 concurrent clients on a multi-thread runtime must be linearizable; the store handed back by shutdown must hold every acknowledged write. " + _EXPL,
        "level_note": "Histories are short (<=20 operations, <=4 clients) so the linearizability search is tiny; a checker time-out is reported as inconclusive. The handle count after a refused removal is adopted from the actor (not part of the statement).",
    },
    "C15": {
        "technique": "runtime monitoring: one-line matcher specification compared with DownloadPolicy::matches over all keys; persistence model; textual round-trips; event flags from a real actor; download decisions of a real live actor observed through hook H7; blob stores of complete nodes in a swarm inspected for content the policy excludes; policies set and read back through client handles of a complete node (api mode); flags of all events of one reconciliation message",
        "design_ref": "DESIGN.md §5 C15",
        "level_text": "Policies of both kinds with 0-5 exact/prefix filters (empty, non-UTF-8, colon-containing) against every key up to length 3 over the alphabet; set/get persistence across reopen and documents; parse(display(f)) == f; should_download of real events equals the matcher. Live mode: entries under random policies through the real store actor, their events handed to the live actor's own handler, neighbours announcing content; content is queued for download or remembered as missing exactly when the policy selects the entry's key. " + _EXPL,
        "level_note": "Trusts the matcher specification in the harness (four lines).",
    },
    "C16": {
        "technique": "runtime monitoring: snapshot-diff of every observable of every other document around each removal / re-creation / write; exact comparison of the protected hash set with the dumps; complete engine driven through client handles (protect callback, open guard); drop_doc through the client layer of a complete node (refused while another handle holds the document, complete otherwise)",
        "design_ref": "DESIGN.md §5 C16",
        "level_text": "Stores with 3-5 documents whose ids are byte neighbours (searched ids ending in FF / 00, read-only ids 00..00, FF..FF, ..FFFF) go through writes, removals (also attempted while open) and re-creations; after each step the removed document must show nothing, all others must be byte-identical to their snapshot, and content_hashes() must equal the hashes held. " + _EXPL,
        "level_note": "Entries of documents whose id is not a public key are placed below the validation layer (hook H3), because they cannot be signed.",
    },
    "C17": {
        "technique": "runtime monitoring: MRU list model compared with get_sync_peers after every registration; reopen through files of the redb-2.x on-disk format; crash images inside registrations (hook H6); the same list through the store actor, registrations for documents that are not open included",
        "design_ref": "DESIGN.md §5 C17",
        "level_text": "Random registration sequences over 1-8 peers and two documents with reopen and unknown documents; the list must equal the five most recently registered distinct peers, most recent first, after every step. " + _EXPL,
        "level_note": "Registration order is by wall-clock nanoseconds in the store; two registrations are assumed to get distinct clock readings.",
    },
    "C18": {
        "technique": "runtime monitoring: derived tables deleted with plain redb, store reopened, heads and key-ordered queries compared with the reference evaluator over the records; observables compared across reopen cycles; files also in the redb-2.x on-disk format; files with a document of more than 1024 records, files with keys of 100-200 KiB",
        "design_ref": "DESIGN.md §5 C18",
        "level_text": "Multi-document, multi-author stores with markers and equal timestamps are flushed; the head table, the by-key index, both or none are deleted with plain redb; after reopening, heads must equal the per-author maxima, key-ordered and latest-per-key queries must match C05's evaluator, and 1-3 further reopen cycles must change nothing. " + _EXPL,
        "level_note": "Only the two derived tables named in the statement are deleted; the namespaces-v1 table shape and the redb-2.x on-disk format are produced by the harness (plain redb, redb 3 Legacy types); older redb versions cannot be written here.",
    },
}
