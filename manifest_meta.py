HOOK_COMMITS = ["75c4ba1", "a6cb873", "8a35c75", "5482b4f", "5942103"]

NOT_APPLICABLE_REASONS = {}

META = {
    "C02": {
        "technique": "runtime monitoring: reference-model comparison (sequential spec + closed form) after every step of seeded permuted histories on the real store",
        "design_ref": "DESIGN.md §5 C02, §2.2",
        "level_text": "Every generated multiset of entries is applied to the real store in at least six orders (with re-offers, through the remote and the local path, memory and file store); result and full dump are compared with an independent executable specification after every single step. Exploration, not proof: held on the cases of this run.",
        "level_note": "Trusts: the harness's 60-line replica specification (self-checked sequential == closed form on every case), determinism of ed25519, the full-scan query used for dumps.",
    },
}
