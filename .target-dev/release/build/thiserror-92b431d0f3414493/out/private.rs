#[doc(hidden)]
pub mod __private18 {
    #[doc(hidden)]
    pub use crate::private::*;
}
