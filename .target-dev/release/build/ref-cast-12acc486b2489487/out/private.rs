#[doc(hidden)]
pub mod __private25 {
    #[doc(hidden)]
    pub use crate::private::*;
}
