//! Helpers for driving the store actor (`SyncHandle`).

use anyhow::Result;
use iroh_docs::{
    actor::SyncHandle,
    api::RpcResult,
    store::{Query, Store},
    Event, NamespaceId, SignedEntry,
};

pub fn spawn(store: Store) -> SyncHandle {
    SyncHandle::spawn(store, None, "vcheck".into())
}

pub async fn get_many(h: &SyncHandle, ns: NamespaceId, q: Query) -> Result<Vec<SignedEntry>> {
    let (tx, mut rx) = irpc::channel::mpsc::channel::<RpcResult<SignedEntry>>(64);
    h.get_many(ns, q, tx).await?;
    let mut out = vec![];
    loop {
        match rx.recv().await {
            Ok(Some(Ok(e))) => out.push(e),
            Ok(Some(Err(e))) => anyhow::bail!("get_many: {e:?}"),
            Ok(None) => break,
            Err(e) => anyhow::bail!("get_many channel: {e:?}"),
        }
    }
    Ok(out)
}

pub async fn dump(h: &SyncHandle, ns: NamespaceId) -> Result<Vec<SignedEntry>> {
    get_many(h, ns, Query::all().include_empty().build()).await
}

/// Drain everything currently queued on a subscriber channel.
pub fn drain(rx: &async_channel::Receiver<Event>) -> Vec<Event> {
    let mut v = vec![];
    while let Ok(e) = rx.try_recv() {
        v.push(e);
    }
    v
}

pub fn runtime(threads: usize) -> tokio::runtime::Runtime {
    if threads <= 1 {
        tokio::runtime::Builder::new_current_thread().enable_all().build().unwrap()
    } else {
        tokio::runtime::Builder::new_multi_thread()
            .worker_threads(threads)
            .enable_all()
            .build()
            .unwrap()
    }
}
