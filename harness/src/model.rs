//! Executable specification of a replica (DESIGN §2.2). Written from the property statements;
//! nothing of iroh-docs' logic is reused (only the accessors of `SignedEntry`).

use std::collections::{BTreeMap, BTreeSet};

use iroh_docs::SignedEntry;
use serde_json::{json, Value};

pub type AKey = ([u8; 32], Vec<u8>);

/// Plain view of an entry.
#[derive(Clone, Debug, PartialEq, Eq, PartialOrd, Ord, Hash)]
pub struct E {
    pub author: [u8; 32],
    pub key: Vec<u8>,
    pub ts: u64,
    pub hash: [u8; 32],
    pub len: u64,
}

impl E {
    pub fn of(se: &SignedEntry) -> E {
        E {
            author: se.author().to_bytes(),
            key: se.key().to_vec(),
            ts: se.timestamp(),
            hash: *se.content_hash().as_bytes(),
            len: se.content_len(),
        }
    }
    /// the value order of the documentation: timestamp, then content hash
    pub fn value(&self) -> (u64, [u8; 32]) {
        (self.ts, self.hash)
    }
    pub fn is_marker(&self) -> bool {
        self.hash == *iroh_blobs::Hash::EMPTY.as_bytes()
    }
    pub fn short(&self) -> String {
        format!(
            "{}:{}@{}{}",
            hex::encode(&self.author[..2]),
            hex::encode(&self.key),
            self.ts % 1_000_000,
            if self.is_marker() {
                "(del)".to_string()
            } else {
                format!("#{}", hex::encode(&self.hash[..2]))
            }
        )
    }
    pub fn json(&self) -> Value {
        json!(self.short())
    }
}

pub fn is_prefix(p: &[u8], k: &[u8]) -> bool {
    k.len() >= p.len() && &k[..p.len()] == p
}

#[derive(Clone, Default, Debug, PartialEq, Eq)]
pub struct Model {
    pub map: BTreeMap<AKey, SignedEntry>,
}

impl Model {
    pub fn new() -> Self {
        Self::default()
    }
    pub fn from_entries(it: impl IntoIterator<Item = SignedEntry>) -> Self {
        let mut m = Model::new();
        for e in it {
            let v = E::of(&e);
            m.map.insert((v.author, v.key), e);
        }
        m
    }
    /// `None`: blocked (superseded), nothing changes. `Some(n)`: stored, n entries removed.
    pub fn offer(&mut self, se: &SignedEntry) -> Option<usize> {
        let e = E::of(se);
        for ((a, k), x) in self.map.iter() {
            if *a == e.author && is_prefix(k, &e.key) {
                let xv = E::of(x);
                if e.value() <= xv.value() {
                    return None;
                }
            }
        }
        let removed: Vec<AKey> = self
            .map
            .iter()
            .filter(|((a, k), x)| {
                *a == e.author && is_prefix(&e.key, k) && E::of(x).value() <= e.value()
            })
            .map(|(k, _)| k.clone())
            .collect();
        for k in &removed {
            self.map.remove(k);
        }
        self.map.insert((e.author, e.key.clone()), se.clone());
        Some(removed.len())
    }
    /// What `offer` would remove (ids), without applying.
    pub fn would_remove(&self, se: &SignedEntry) -> Vec<AKey> {
        let e = E::of(se);
        self.map
            .iter()
            .filter(|((a, k), x)| {
                *a == e.author && is_prefix(&e.key, k) && E::of(x).value() <= e.value()
            })
            .map(|(k, _)| k.clone())
            .collect()
    }
    /// Order-independent closed form of the state after offering a multiset.
    pub fn closed_form(offers: &[SignedEntry]) -> Model {
        let es: Vec<E> = offers.iter().map(E::of).collect();
        let mut m = Model::new();
        for (i, e) in es.iter().enumerate() {
            let mut kept = true;
            for (j, x) in es.iter().enumerate() {
                if i == j || x.author != e.author || !is_prefix(&x.key, &e.key) {
                    continue;
                }
                if x.key == e.key {
                    // same slot: strictly greater wins; identical values are the same entry
                    if x.value() > e.value() {
                        kept = false;
                    }
                } else if x.value() >= e.value() {
                    kept = false;
                }
                if !kept {
                    break;
                }
            }
            if kept {
                m.map.insert((e.author, e.key.clone()), offers[i].clone());
            }
        }
        m
    }
    pub fn entries(&self) -> Vec<SignedEntry> {
        self.map.values().cloned().collect()
    }
    pub fn plain(&self) -> BTreeSet<E> {
        self.map.values().map(E::of).collect()
    }
    /// per-author maximal timestamp
    pub fn heads(&self) -> BTreeMap<[u8; 32], u64> {
        let mut h = BTreeMap::new();
        for ((a, _), x) in self.map.iter() {
            let t = x.timestamp();
            h.entry(*a).and_modify(|m: &mut u64| *m = (*m).max(t)).or_insert(t);
        }
        h
    }
    pub fn join(a: &Model, b: &Model) -> Model {
        let mut all = a.entries();
        all.extend(b.entries());
        Model::closed_form(&all)
    }
    pub fn short(&self) -> Vec<String> {
        self.map.values().map(|x| E::of(x).short()).collect()
    }
}

/// Self-check of the oracle: sequential model == closed form. Returns an error text on mismatch
/// (the caller reports that as a harness error, never as a violation of the crate).
pub fn self_check(offers: &[SignedEntry]) -> Result<Model, String> {
    let mut seq = Model::new();
    for o in offers {
        seq.offer(o);
    }
    let cf = Model::closed_form(offers);
    if seq != cf {
        return Err(format!(
            "oracle self-check failed: sequential {:?} != closed form {:?}",
            seq.short(),
            cf.short()
        ));
    }
    Ok(cf)
}
