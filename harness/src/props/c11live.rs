//! C11, mode `live` — the sync slots of *running* live actors, read through hook H8.
//!
//! The scheduler modes call the live actor's handlers by hand; the net mode judges a running node
//! from outside. Neither sees the coordination state of a node that runs by itself: a leaked slot
//! shows there only as a request that is never made, and "never" cannot be decided without a clock.
//! H8 is a query that the running actor answers from inside its loop, between two handlers: the
//! slot of every peer of a document and the number of dial tasks and accept tasks it has spawned and
//! not yet collected. Between two handlers this holds on the unchanged tree, at every instant:
//!
//!   **I1** slots of the document that are `Running{Connect}`  ≤  dial tasks in flight
//!   **I2** slots of the document that are `Running{Accept}`   ≤  accept tasks in flight
//!
//! because a slot is taken in the same handler that spawns the task which will free it, and freed in
//! the handler that collects that task (the counts are per node, the slots per document, hence ≤).
//! A busy slot without a task is a slot that nothing will ever free — the leak of the statement,
//! decided at the instant it happens, without waiting for anything. At the end of a history the
//! harness waits (bounded; giving up is inconclusive) until no task is in flight and then requires
//! every slot to be idle, and the two nodes to be able to sync once more (S4).
//!
//! Workload: two complete nodes and up to 48 peers that do not exist. Steps: `start_sync` with a
//! burst of 1–48 such peers (dials that fail), with the other node, again while syncing; writes;
//! leave and join again; imports by ticket.

use std::time::Duration;

use iroh::{PublicKey, SecretKey};
use iroh_docs::api::{
    protocol::{AddrInfoOptions, ShareMode},
    Doc,
};
use iroh_docs::engine::verif::Origin;
use iroh_docs::NamespaceId;
use serde_json::json;

use crate::{
    ctx::Ctx,
    rng::{h64, Rng},
};

use super::stack::{make_node, SNode};

pub fn run(ctx: &mut Ctx) {
    let rt = crate::act::runtime(4);
    rt.block_on(async {
        let base = 60 + (ctx.shard as u8 % 20) * 3;
        let mut nodes = vec![];
        // both id orders across shards
        let seeds = if ctx.shard % 2 == 0 { [base, base + 1] } else { [base + 1, base] };
        for s in seeds {
            match make_node(s).await {
                Ok(n) => nodes.push(n),
                Err(e) => {
                    ctx.harness_error(format!("cannot create a docs node: {e:?}"));
                    return;
                }
            }
        }
        let mut inconclusive_in_a_row = 0;
        for case in ctx.cases(40, 20_000) {
            let mut rng = ctx.rng(case);
            let r = tokio::time::timeout(Duration::from_secs(180), one(ctx, case, &mut rng, &nodes)).await;
            match r {
                Err(_) => {
                    ctx.harness_error("live history did not finish within 180 s");
                    break;
                }
                Ok(false) => {
                    inconclusive_in_a_row += 1;
                    if inconclusive_in_a_row >= 3 {
                        ctx.harness_error("three live histories in a row were inconclusive (tasks still in flight after the wait)");
                        break;
                    }
                }
                Ok(true) => inconclusive_in_a_row = 0,
            }
            if !ctx.harness_errors.is_empty() {
                break;
            }
        }
        for n in nodes {
            let _ = n.router.shutdown().await;
            n.ep.close().await;
        }
    });
}

fn ghost(case: u64, i: usize) -> PublicKey {
    let mut b = [0x9Cu8; 32];
    b[..8].copy_from_slice(&case.to_le_bytes());
    b[8] = i as u8;
    SecretKey::from_bytes(&b).public()
}

/// Ask the running actor of `node` about `doc` and judge I1 / I2. Returns (in flight, busy slots).
async fn observe(ctx: &mut Ctx, case: u64, node: &SNode, who: usize, doc: NamespaceId, trace: &[String]) -> Option<(usize, usize)> {
    let snap = match node.docs.verif_engine().verif_live_snapshot(doc).await {
        Ok(s) => s,
        Err(e) => {
            ctx.harness_error(format!("snapshot of a running live actor failed: {e:?}"));
            return None;
        }
    };
    ctx.count("snapshots_of_running_actors", 1);
    let connect = snap.peers.iter().filter(|(_, s)| matches!(s.running, Some(Origin::Connect(_)))).count();
    let accept = snap.peers.iter().filter(|(_, s)| matches!(s.running, Some(Origin::Accept))).count();
    ctx.distinct("states", h64(format!("{connect}:{accept}:{}:{}:{}", snap.connects_in_flight.min(50), snap.accepts_in_flight.min(5), snap.syncing).as_bytes()));
    if connect > 0 || accept > 0 {
        ctx.count("snapshots_with_a_busy_slot", 1);
    }
    if connect > snap.connects_in_flight {
        ctx.violation(case, "slot-busy-with-a-dial-but-no-dial-task-in-flight", json!({"node": who, "slots_running_connect": connect, "dial_tasks_in_flight": snap.connects_in_flight, "peers_known": snap.peers.len(), "trace": trace}));
        return None;
    }
    if accept > snap.accepts_in_flight {
        ctx.violation(case, "slot-busy-with-an-accepted-session-but-no-accept-task-in-flight", json!({"node": who, "slots_running_accept": accept, "accept_tasks_in_flight": snap.accepts_in_flight, "trace": trace}));
        return None;
    }
    Some((snap.connects_in_flight + snap.accepts_in_flight, connect + accept))
}

async fn one(ctx: &mut Ctx, case: u64, rng: &mut Rng, nodes: &[SNode]) -> bool {
    let mut trace: Vec<String> = vec![];
    macro_rules! bail_h {
        ($($a:tt)*) => {{ ctx.harness_error(format!("case {case}: {} (trace {:?})", format!($($a)*), trace)); return false; }};
    }
    let d0 = match nodes[0].docs.create().await {
        Ok(d) => d,
        Err(e) => bail_h!("create: {e:?}"),
    };
    let id = d0.id();
    let mut docs: [Option<Doc>; 2] = [Some(d0), None];
    ctx.eval();
    let steps = rng.range(3, 10);
    let mut bursts = 0usize;
    let mut biggest = 0usize;
    for step in 0..steps {
        let who = if docs[1].is_some() && rng.chance(1, 2) { 1 } else { 0 };
        match rng.below(10) {
            // a burst of dials to peers that do not exist
            0..=3 => {
                let k = *rng.pick(&[1usize, 2, 5, 16, 31, 32, 33, 34, 40, 48]);
                let from = rng.below(4) * 12;
                let peers: Vec<iroh::EndpointAddr> = (0..k).map(|i| iroh::EndpointAddr::new(ghost(case, (from + i) % 60))).collect();
                trace.push(format!("{step}: node{who} start_sync with {k} peers that do not exist"));
                if let Err(e) = docs[who].as_ref().unwrap().start_sync(peers).await {
                    bail_h!("start_sync: {e:?}");
                }
                bursts += 1;
                biggest = biggest.max(k);
            }
            // the second node joins by ticket / the nodes dial each other
            4 | 5 => {
                if docs[1].is_none() {
                    let t = match docs[0].as_ref().unwrap().share(ShareMode::Write, AddrInfoOptions::RelayAndAddresses).await {
                        Ok(t) => t,
                        Err(e) => bail_h!("share: {e:?}"),
                    };
                    match nodes[1].docs.import(t).await {
                        Ok(d) => docs[1] = Some(d),
                        Err(e) => bail_h!("import: {e:?}"),
                    }
                    trace.push(format!("{step}: node1 imports the ticket of node0"));
                } else {
                    let other = 1 - who;
                    trace.push(format!("{step}: node{who} start_sync with node{other}"));
                    if let Err(e) = docs[who].as_ref().unwrap().start_sync(vec![nodes[other].addr.clone()]).await {
                        bail_h!("start_sync: {e:?}");
                    }
                }
            }
            6 | 7 => {
                let k: Vec<u8> = vec![b'k', step as u8];
                trace.push(format!("{step}: node{who} writes"));
                let _ = docs[who].as_ref().unwrap().set_bytes(nodes[who].author, k, format!("live-{case}-{step}").into_bytes()).await;
            }
            8 => {
                trace.push(format!("{step}: node{who} leaves"));
                if let Err(e) = docs[who].as_ref().unwrap().leave().await {
                    bail_h!("leave: {e:?}");
                }
            }
            _ => {
                tokio::time::sleep(Duration::from_millis(rng.below(30) as u64)).await;
                trace.push(format!("{step}: pause"));
            }
        }
        // the invariants hold between any two handlers: ask both actors now, and once more a moment later
        for round in 0..2 {
            for (i, n) in nodes.iter().enumerate() {
                if observe(ctx, case, n, i, id, &trace).await.is_none() {
                    cleanup(nodes, &docs, id).await;
                    return true;
                }
            }
            if round == 0 {
                tokio::task::yield_now().await;
            }
        }
    }
    // ---- quiescence: wait until nothing is in flight, then every slot is idle
    let mut quiet = false;
    for _ in 0..600 {
        let mut in_flight = 0;
        let mut busy = 0;
        for (i, n) in nodes.iter().enumerate() {
            match observe(ctx, case, n, i, id, &trace).await {
                Some((f, b)) => {
                    in_flight += f;
                    busy += b;
                }
                None => {
                    cleanup(nodes, &docs, id).await;
                    return true;
                }
            }
        }
        if in_flight == 0 {
            // I1 and I2 already say that no slot can be busy now; stated once more as the statement puts it
            if busy > 0 {
                ctx.violation(case, "slot-not-idle-with-nothing-in-flight", json!({"busy_slots": busy, "trace": trace}));
                cleanup(nodes, &docs, id).await;
                return true;
            }
            quiet = true;
            break;
        }
        tokio::time::sleep(Duration::from_millis(50)).await;
    }
    ctx.count("dial_bursts", bursts as u64);
    ctx.distinct("burst_sizes", biggest as u64);
    if bursts > 0 && docs[1].is_some() {
        ctx.nontrivial(h64(trace.join("|").as_bytes()));
    }
    if ctx.want_sample() {
        ctx.sample(json!({"case": case, "mode": "live", "trace": trace, "reached_quiescence": quiet}));
    }
    cleanup(nodes, &docs, id).await;
    if !quiet {
        ctx.count("histories_with_tasks_still_in_flight_after_30s(inconclusive)", 1);
    }
    quiet
}

async fn cleanup(nodes: &[SNode], docs: &[Option<Doc>; 2], id: NamespaceId) {
    for (i, d) in docs.iter().enumerate() {
        if let Some(d) = d {
            let _ = d.leave().await;
            let _ = d.close().await;
            let _ = nodes[i].docs.drop_doc(id).await;
        }
    }
}
