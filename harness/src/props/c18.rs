//! C18 — opening an older database rebuilds derived tables exactly; reopening is a no-op.

use std::collections::BTreeMap;

use iroh_docs::{store::Store, Capability, NamespaceId};
use redb::TableHandle;
use serde_json::json;

use crate::{
    ctx::Ctx,
    gen::Universe,
    model::E,
    props::{c05, c16},
    rng::{h64, Rng},
    util::{dump, heads, offer_remote, Scratch},
};

thread_local! {
    static LIVE_HEADS: std::cell::RefCell<Vec<Option<BTreeMap<[u8; 32], (u64, Vec<u8>)>>>> = const { std::cell::RefCell::new(vec![]) };
}

fn delete_tables(path: &std::path::Path, names: &[&str]) -> anyhow::Result<Vec<String>> {
    let db = redb::Database::create(path)?;
    let tx = db.begin_write()?;
    let mut deleted = vec![];
    let handles: Vec<_> = tx.list_tables()?.collect();
    for h in handles {
        if names.contains(&h.name()) {
            deleted.push(h.name().to_string());
            tx.delete_table(h)?;
        }
    }
    tx.commit()?;
    Ok(deleted)
}

/// Create the named derived tables empty (what the first step of an open of an old file commits).
fn recreate_empty(path: &std::path::Path, names: &[&str]) -> anyhow::Result<()> {
    const LATEST: redb::TableDefinition<(&[u8; 32], &[u8; 32]), (u64, &[u8])> = redb::TableDefinition::new("latest-by-author-1");
    const BY_KEY: redb::TableDefinition<(&[u8; 32], &[u8], &[u8; 32]), ()> = redb::TableDefinition::new("records-by-key-1");
    let db = redb::Database::create(path)?;
    let tx = db.begin_write()?;
    if names.contains(&"latest-by-author-1") {
        tx.open_table(LATEST)?;
    }
    if names.contains(&"records-by-key-1") {
        tx.open_table(BY_KEY)?;
    }
    tx.commit()?;
    Ok(())
}

/// Move every (writable) document from `namespaces-2` back to the older `namespaces-1` table.
pub(crate) fn namespaces_to_v1(path: &std::path::Path) -> anyhow::Result<()> {
    const V1: redb::TableDefinition<&[u8; 32], &[u8; 32]> = redb::TableDefinition::new("namespaces-1");
    const V2: redb::TableDefinition<&[u8; 32], (u8, &[u8; 32])> = redb::TableDefinition::new("namespaces-2");
    use redb::ReadableTable;
    let db = redb::Database::create(path)?;
    let tx = db.begin_write()?;
    {
        let mut rows: Vec<([u8; 32], [u8; 32])> = vec![];
        {
            let v2 = tx.open_table(V2)?;
            for r in v2.iter()? {
                let (k, v) = r?;
                let (kind, bytes) = v.value();
                anyhow::ensure!(kind == 1, "a read-only document cannot be stored in the old table");
                rows.push((*k.value(), *bytes));
            }
        }
        let mut v1 = tx.open_table(V1)?;
        for (id, secret) in &rows {
            v1.insert(id, secret)?;
        }
    }
    tx.delete_table(V2)?;
    tx.commit()?;
    Ok(())
}

pub fn run(ctx: &mut Ctx) {
    let scratch = Scratch::new();
    for case in ctx.cases(300, 20_000) {
        let mut rng = ctx.rng(case);
        if rng.chance(1, 150) {
            huge_keys_case(ctx, case, &mut rng, &scratch);
            continue;
        }
        one(ctx, case, &mut rng, &scratch);
    }
}

/// Keys of 100..200 KiB (added after seeded change agent-C18-11, which bounds the memory of the head
/// rebuild by the key bytes it has buffered). The general case handles every key many times over and
/// cannot afford such keys; this one does the minimum: a few entries with very long keys by two
/// authors, the head table deleted with plain redb, and after the reopen the heads (timestamp and
/// key) must be those the live store maintained, and equal to the per-author maximum of the entries.
fn huge_keys_case(ctx: &mut Ctx, case: u64, rng: &mut Rng, scratch: &Scratch) {
    let path = scratch.path("mig-huge");
    let u = Universe::new(rng, 1);
    let id = u.ns.id();
    ctx.eval();
    let live = {
        let mut store = Store::persistent(&path).expect("create");
        store.import_namespace(Capability::Write(u.ns.clone())).unwrap();
        let n = rng.range(3, 6);
        for i in 0..n {
            let mut k = vec![*rng.pick(&[b'a', b'h', b'z']); 100_000 + rng.below(100_000)];
            k.push(i as u8);
            offer_remote(&mut store, id, &u.entry(i % 2, &k, u.t0 + rng.below(8) as u64, Some(i % 4)));
            if rng.chance(1, 2) {
                offer_remote(&mut store, id, &u.entry(rng.below(2), &[b'z', i as u8], u.t0 + rng.below(8) as u64, Some(1)));
            }
        }
        store.flush().unwrap();
        heads(&mut store, id).expect("heads")
    };
    ctx.count("files_with_keys_of_more_than_100_KiB", 1);
    if let Err(e) = delete_tables(&path, &["latest-by-author-1"]) {
        ctx.harness_error(format!("deleting the head table failed: {e:?}"));
        return;
    }
    for open in 0..2 {
        let mut store = match Store::persistent(&path) {
            Ok(s) => s,
            Err(e) => {
                ctx.violation(case, "open-of-older-database-failed", json!({"err": format!("{e:?}"), "keys": "100..200 KiB"}));
                return;
            }
        };
        let got = heads(&mut store, id).unwrap_or_default();
        let want_ts: BTreeMap<[u8; 32], u64> = dump(&mut store, id).map(|d| crate::model::Model { map: d }.heads()).unwrap_or_default();
        let got_ts: BTreeMap<[u8; 32], u64> = got.iter().map(|(a, (t, _))| (*a, *t)).collect();
        if got_ts != want_ts {
            ctx.violation(case, "rebuilt-heads-differ-from-entries", json!({"keys": "100..200 KiB", "open": open, "got": got_ts.values().collect::<Vec<_>>(), "want": want_ts.values().collect::<Vec<_>>()}));
            return;
        }
        if got_ts != live.iter().map(|(a, (t, _))| (*a, *t)).collect::<BTreeMap<_, _>>() {
            ctx.violation(case, "rebuilt-heads-differ-from-the-heads-maintained", json!({"keys": "100..200 KiB", "open": open}));
            return;
        }
    }
    ctx.nontrivial(h64(format!("huge:{case}:{}", ctx.seed).as_bytes()));
    let _ = std::fs::remove_file(&path);
}

fn one(ctx: &mut Ctx, case: u64, rng: &mut Rng, scratch: &Scratch) {
    let mut path = scratch.path("mig");
    // One file in twenty-five holds a document with more than a thousand records next to small ones
    // (added after seeded change agent-C18-9): a rebuild that works in batches has to get past the
    // first batch and past the end of the first document.
    let big = if rng.chance(1, 25) { Some(rng.below(3)) } else { None };
    let n_docs = if big.is_some() { 3 } else { rng.range(1, 3) };
    let unis: Vec<Universe> = (1..=n_docs as u8).map(|i| Universe::new(rng, i)).collect();
    {
        let mut store = Store::persistent(&path).expect("create");
        for (ui, u) in unis.iter().enumerate() {
            store.import_namespace(Capability::Write(u.ns.clone())).unwrap();
            let n = rng.range(1, 14);
            let mut es = u.entries(rng, n, 3);
            if big == Some(ui) {
                let extra = 1025 + rng.below(80);
                for i in 0..extra {
                    es.push(u.entry(i % u.authors.len(), &[b'L', (i / 256) as u8, (i % 256) as u8, b'x'], u.t0 + 1 + (i % 3) as u64, Some(i % 4)));
                }
                ctx.count("files_with_a_document_of_more_than_1024_records", 1);
            }
            if rng.chance(1, 2) {
                es.sort_by_key(|e| e.timestamp());
            }
            for e in es {
                offer_remote(&mut store, u.ns.id(), &e);
            }
            if rng.chance(1, 2) {
                store.register_useful_peer(u.ns.id(), rng.fill32()).unwrap();
            }
            if rng.chance(1, 2) {
                // a policy other than the default, so that "no observable content changes" has something to lose
                let f = iroh_docs::store::FilterKind::Prefix(vec![b'a' + rng.below(2) as u8].into());
                store.set_download_policy(&u.ns.id(), iroh_docs::store::DownloadPolicy::NothingExcept(vec![f])).unwrap();
            }
        }
        store.flush().unwrap();
        LIVE_HEADS.with(|h| {
            let mut v = vec![];
            for u in &unis {
                v.push(heads(&mut store, u.ns.id()).ok());
            }
            *h.borrow_mut() = v;
        });
    }
    ctx.eval();
    let ids: Vec<NamespaceId> = unis.iter().map(|u| u.ns.id()).collect();
    // full heads (with keys) as the live store reported them before it was closed
    let mut prev_heads: Vec<Option<BTreeMap<[u8; 32], (u64, Vec<u8>)>>> = LIVE_HEADS.with(|h| h.borrow().clone());
    if prev_heads.len() != ids.len() {
        prev_heads = vec![None; ids.len()];
    }
    // reference: the records themselves (from a plain reopen)
    let mut reference = vec![];
    {
        let mut store = Store::persistent(&path).expect("reopen");
        for id in &ids {
            reference.push(c16::observe(&mut store, *id).expect("observe"));
        }
    }
    let which = rng.below(4);
    let names: Vec<&str> = match which {
        0 => vec!["latest-by-author-1"],
        1 => vec!["records-by-key-1"],
        2 => vec!["latest-by-author-1", "records-by-key-1"],
        _ => vec![],
    };
    let deleted = match delete_tables(&path, &names) {
        Ok(d) => d,
        Err(e) => {
            ctx.harness_error(format!("deleting tables with plain redb failed: {e:?}"));
            return;
        }
    };
    if deleted.len() != names.len() {
        ctx.harness_error(format!("tables to delete not found: wanted {names:?}, deleted {deleted:?}"));
        return;
    }
    ctx.count(&format!("deleted[{}]", names.join("+")), 1);
    // An open of an old file commits in steps: first the missing tables are created empty, then each
    // rebuild. A process that died after the first step leaves the derived tables present but
    // empty; the next open must still rebuild them. One file in three is put into that state.
    if !names.is_empty() && rng.chance(1, 3) {
        if let Err(e) = recreate_empty(&path, &names) {
            ctx.harness_error(format!("re-creating empty tables with plain redb failed: {e:?}"));
            return;
        }
        ctx.count("files_left_by_an_interrupted_first_open", 1);
    }
    // Files written before the by-key index existed may be older still: documents were then kept in
    // the table `namespaces-1` (id -> secret), which the open converts after it rebuilt the heads.
    // Half of the files without the index are put into that shape (all documents here are writable).
    let old_namespaces = names.contains(&"records-by-key-1") && rng.chance(1, 2);
    if old_namespaces {
        if let Err(e) = namespaces_to_v1(&path) {
            ctx.harness_error(format!("rewriting the namespaces table with plain redb failed: {e:?}"));
            return;
        }
        ctx.count("files_with_the_old_namespaces_table", 1);
    }
    // One file in four is, on top of that, in the on-disk format of iroh-docs 0.94..=0.98 (added after
    // seeded change agent-C18-7): the first open converts the file and must still run the rebuilds.
    if rng.chance(1, 4) {
        let old = scratch.path("mig-old-format");
        if let Err(e) = crate::oldfile::write_old_format(&path, &old, Default::default()) {
            ctx.harness_error(format!("writing an old-format file failed: {e:?}"));
            return;
        }
        if !crate::oldfile::is_refused_by_current_redb(&old) {
            ctx.harness_error("the old-format file is not refused by the current redb");
            return;
        }
        let _ = std::fs::remove_file(&path);
        path = old;
        ctx.count("files_in_the_old_on_disk_format", 1);
    }
    let cycles = rng.range(1, 3);
    for cycle in 0..cycles {
        let mut store = match Store::persistent(&path) {
            Ok(s) => s,
            Err(e) => {
                ctx.violation(case, "open-failed", json!({"deleted": names, "cycle": cycle, "err": format!("{e:?}")}));
                return;
            }
        };
        for (i, id) in ids.iter().enumerate() {
            let obs = match c16::observe(&mut store, *id) {
                Ok(o) => o,
                Err(e) => {
                    ctx.violation(case, "observe-failed", json!({"err": format!("{e:?}")}));
                    return;
                }
            };
            let dm = dump(&mut store, *id).unwrap();
            // heads: per-author maximum of the records
            let mut want: BTreeMap<[u8; 32], u64> = BTreeMap::new();
            for ((a, _), x) in dm.iter() {
                let t = x.timestamp();
                want.entry(*a).and_modify(|m| *m = (*m).max(t)).or_insert(t);
            }
            ctx.count("head_checks", 1);
            if obs.heads != want {
                let sig = if names.contains(&"latest-by-author-1") && cycle == 0 { "rebuilt-heads-differ-from-records" } else { "heads-differ-from-records-after-reopen" };
                ctx.violation(case, sig, json!({"doc": i, "deleted": names, "cycle": cycle,
                    "heads": obs.heads.iter().map(|(a, t)| format!("{}@{}", hex::encode(&a[..2]), t % 1_000_000)).collect::<Vec<_>>(),
                    "expected": want.iter().map(|(a, t)| format!("{}@{}", hex::encode(&a[..2]), t % 1_000_000)).collect::<Vec<_>>(),
                    "records": dm.values().map(|e| E::of(e).short()).collect::<Vec<_>>()}));
                return;
            }
            // reopening an up-to-date database is a no-op for the heads including their keys: compare
            // with the previous observation unless the head table was deleted in between
            if let Ok(hd) = heads(&mut store, *id) {
                let rebuilt_now = cycle == 0 && names.contains(&"latest-by-author-1");
                if let (false, Some(prev)) = (rebuilt_now, &prev_heads[i]) {
                    ctx.count("head_key_checks", 1);
                    if *prev != hd {
                        ctx.violation(case, "heads-changed-by-reopening-an-up-to-date-database", json!({"doc": i, "cycle": cycle, "deleted": names,
                            "before": prev.iter().map(|(a, (t, k))| format!("{}@{}:{}", hex::encode(&a[..2]), t % 1_000_000, hex::encode(k))).collect::<Vec<_>>(),
                            "after": hd.iter().map(|(a, (t, k))| format!("{}@{}:{}", hex::encode(&a[..2]), t % 1_000_000, hex::encode(k))).collect::<Vec<_>>()}));
                        return;
                    }
                }
                prev_heads[i] = Some(hd);
            }
            // head keys must name an entry with that timestamp
            if let Ok(hd) = heads(&mut store, *id) {
                for (a, (t, k)) in hd {
                    let ok = dm.get(&(a, k.clone())).map(|x| x.timestamp() == t).unwrap_or(false);
                    if !ok && names.contains(&"latest-by-author-1") {
                        ctx.violation(case, "rebuilt-head-key-names-no-entry-with-that-timestamp", json!({"doc": i, "key": hex::encode(&k)}));
                        return;
                    }
                }
            }
            // everything else unchanged
            let mut o2 = obs.clone();
            o2.heads = reference[i].heads.clone();
            if o2 != reference[i] {
                ctx.violation(case, "observable-content-changed-by-reopen", json!({"doc": i, "deleted": names, "cycle": cycle,
                    "entries_before": reference[i].entries.len(), "entries_after": obs.entries.len()}));
                return;
            }
            // key-ordered queries against the reference evaluator
            for q in c05::query_space(rng, &dm, &unis[i], 60).into_iter().filter(|q| q.by_key || q.latest) {
                ctx.count("key_ordered_queries", 1);
                if let Some((sig, detail)) = c05::check_query(&mut store, *id, &dm, &q) {
                    let sig = if names.contains(&"records-by-key-1") { format!("rebuilt-index:{sig}") } else { sig };
                    let mut d = detail;
                    d["deleted"] = json!(names);
                    d["cycle"] = json!(cycle);
                    ctx.violation(case, &sig, d);
                    return;
                }
            }
        }
        drop(store);
    }
    if !names.is_empty() {
        ctx.nontrivial(h64(format!("{:?}{:?}", names, reference).as_bytes()));
    }
    if ctx.want_sample() {
        ctx.sample(json!({"case": case, "documents": ids.len(), "deleted_tables": names, "reopen_cycles": cycles,
            "records_doc0": reference[0].entries.len()}));
    }
    let _ = std::fs::remove_file(&path);
    let mut backup = path.clone().into_os_string();
    backup.push(".backup-redb-v2-tuples");
    let _ = std::fs::remove_file(std::path::PathBuf::from(backup));
}
