use crate::ctx::Ctx;

pub mod c02;
pub mod c06;

pub fn dispatch(ctx: &mut Ctx) {
    match ctx.prop.as_str() {
        "C02" => c02::run(ctx),
        other => {
            ctx.harness_error(format!("unknown property {other}"));
        }
    }
}
