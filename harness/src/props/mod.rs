use crate::ctx::Ctx;

pub mod c01;
pub mod c02;
pub mod c03;
pub mod c04;
pub mod c05;
pub mod c08;
pub mod c09;
pub mod c10;
pub mod c11;
pub mod c11net;
pub mod c11live;
pub mod c12;
pub mod c13;
pub mod c06;
pub mod c07;
pub mod c14;
pub mod c15;
pub mod c16;
pub mod c16engine;
pub mod c17;
pub mod c18;
pub mod stack;
pub mod apimode;

pub fn dispatch(ctx: &mut Ctx) {
    // the full-stack swarm serves several properties; each run judges only its own
    if ctx.mode.as_deref() == Some("stack") {
        return stack::run(ctx);
    }
    // so does the single node driven through its client layer
    if ctx.mode.as_deref() == Some("api") {
        return apimode::run(ctx);
    }
    match ctx.prop.as_str() {
        "C01" => c01::run(ctx),
        "C02" => c02::run(ctx),
        "C03" => c03::run(ctx),
        "C04" => c04::run(ctx),
        "C05" => c05::run(ctx),
        "C08" => c08::run(ctx),
        "C09" => c09::run(ctx),
        "C10" => c10::run(ctx),
        "C11" => c11::run(ctx),
        "C12" => c12::run(ctx),
        "C13" => c13::run(ctx),
        "C06" => c06::run(ctx),
        "C07" => c07::run(ctx),
        "C14" => c14::run(ctx),
        "C15" => c15::run(ctx),
        "C16" => c16::run(ctx),
        "C17" => c17::run(ctx),
        "C18" => c18::run(ctx),
        other => {
            ctx.harness_error(format!("unknown property {other}"));
        }
    }
}
