//! C07 — write capability is required to author entries and is never lost.

use std::collections::BTreeMap;

use iroh_docs::{
    actor::{OpenOpts, SyncHandle},
    store::{ImportNamespaceOutcome, Store},
    sync::InsertError,
    Capability, CapabilityKind, ContentStatus, NamespaceId,
};
use serde_json::json;

use crate::{
    act,
    ctx::Ctx,
    gen::{content, namespace, Universe},
    rng::{h64, Rng},
    util::{block_on, new_store, Backend, Scratch, PEER},
};

#[derive(Clone, Copy, PartialEq, Eq, PartialOrd, Ord, Debug)]
enum Cap {
    None,
    Read,
    Write,
}

pub fn run(ctx: &mut Ctx) {
    let scratch = Scratch::new();
    for case in ctx.cases(1_500, 100_000) {
        let mut rng = ctx.rng(case);
        ctx.eval();
        if case % 3 == 2 {
            actor_case(ctx, case, &mut rng);
        } else {
            store_case(ctx, case, &mut rng, &scratch);
        }
    }
}

fn kinds(store: &mut Store) -> anyhow::Result<BTreeMap<NamespaceId, String>> {
    let mut m = BTreeMap::new();
    for r in store.list_namespaces()? {
        let (id, k) = r?;
        m.insert(id, format!("{k:?}"));
    }
    Ok(m)
}

fn model_kinds(docs: &[Universe], caps: &[Cap]) -> BTreeMap<NamespaceId, String> {
    let mut m = BTreeMap::new();
    for (d, c) in docs.iter().zip(caps) {
        match c {
            Cap::None => {}
            Cap::Read => {
                m.insert(d.ns.id(), format!("{:?}", CapabilityKind::Read));
            }
            Cap::Write => {
                m.insert(d.ns.id(), format!("{:?}", CapabilityKind::Write));
            }
        }
    }
    m
}

fn store_case(ctx: &mut Ctx, case: u64, rng: &mut Rng, scratch: &Scratch) {
    let file = rng.chance(1, 3);
    let (mut store, mut path) = new_store(if file { Backend::File } else { Backend::Memory }, scratch);
    let docs: Vec<Universe> = (1..=3).map(|i| Universe::with(namespace(i), 2)).collect();
    let mut caps = vec![Cap::None; 3];
    let mut trace = vec![];
    // One file in four starts as a file written by an early version: its (writable) documents are in
    // the old `namespaces-1` table, which the first open converts. Nothing of that old table may
    // matter afterwards: a document removed and imported read-only later stays read-only.
    if file && rng.chance(1, 4) {
        let n = rng.range(1, 3);
        for d in 0..n {
            store.import_namespace(Capability::Write(docs[d].ns.clone())).unwrap();
            caps[d] = Cap::Write;
        }
        store.flush().unwrap();
        drop(store);
        if let Err(e) = crate::props::c18::namespaces_to_v1(path.as_ref().unwrap()) {
            ctx.harness_error(format!("rewriting the namespaces table with plain redb failed: {e:?}"));
            return;
        }
        store = Store::persistent(path.as_ref().unwrap()).expect("open of an old file");
        trace.push(format!("file of an early version with {n} writable documents in the old namespaces table, opened"));
        ctx.count("files_of_an_early_version", 1);
    }
    for a in &docs[0].authors {
        store.import_author(a.clone()).unwrap();
    }
    let mut upgraded = false;
    let mut tick = 0u64;
    let n_steps = rng.range(4, 30);
    for step in 0..n_steps {
        let d = rng.below(3);
        let id = docs[d].ns.id();
        tick += 1;
        // the write secret may also arrive through the store's other entry point, `new_replica`, which
        // imports it and opens the document (added after seeded change agent-C07-8)
        if rng.chance(1, 12) {
            let before = caps[d];
            let r = store.new_replica(docs[d].ns.clone()).map(|_| ());
            store.close_replica(id);
            trace.push(format!("new_replica(secret) for doc{d} (held: {before:?}) -> {}", r.is_ok()));
            ctx.count("write_secret_through_new_replica", 1);
            if r.is_err() {
                ctx.violation(case, "new-replica-with-the-write-secret-failed", json!({"trace": trace}));
                return;
            }
            caps[d] = Cap::Write;
            if before == Cap::Read {
                upgraded = true;
            }
            continue;
        }
        match rng.below(9) {
            0 | 1 => {
                let write = rng.chance(1, 2);
                let cap = if write { Capability::Write(docs[d].ns.clone()) } else { Capability::Read(id) };
                let before = caps[d];
                let res = store.import_namespace(cap);
                let want = match (before, write) {
                    (Cap::None, _) => "Inserted",
                    (Cap::Read, true) => "Upgraded",
                    _ => "NoChange",
                };
                caps[d] = caps[d].max(if write { Cap::Write } else { Cap::Read });
                if before == Cap::Read && write {
                    upgraded = true;
                }
                trace.push(format!("import doc{d} {}", if write { "write" } else { "read" }));
                ctx.count("imports", 1);
                match res {
                    Ok(o) => {
                        let got = match o {
                            ImportNamespaceOutcome::Inserted => "Inserted",
                            ImportNamespaceOutcome::Upgraded => "Upgraded",
                            ImportNamespaceOutcome::NoChange => "NoChange",
                        };
                        if got != want {
                            ctx.violation(case, "import-outcome-differs", json!({"got": got, "expected": want, "trace": trace}));
                            return;
                        }
                    }
                    Err(e) => {
                        ctx.violation(case, "import-failed", json!({"err": format!("{e:?}"), "trace": trace}));
                        return;
                    }
                }
            }
            2 if file => {
                store.flush().unwrap();
                drop(store);
                if rng.chance(1, 3) {
                    // the same rows in a file of the on-disk format of iroh-docs 0.94..=0.98, which the
                    // open converts: an upgrade is a reopen like any other (added after seeded change
                    // agent-C15-8)
                    let mut p = path.clone().unwrap();
                    let newp = scratch.path("c07-old-format");
                    match crate::oldfile::reopen_through_old_format(&mut p, newp) {
                        Ok(s) => store = s,
                        Err(Ok(text)) => {
                            ctx.harness_error(text);
                            return;
                        }
                        Err(Err(e)) => {
                            ctx.violation(case, "reopen-of-old-format-file-failed", json!({"err": format!("{e:?}"), "trace": trace}));
                            return;
                        }
                    }
                    path = Some(p);
                    trace.push("reopen through an old-format file".into());
                    ctx.count("reopens_through_old_format_files", 1);
                } else {
                    store = Store::persistent(path.as_ref().unwrap()).expect("reopen");
                    trace.push("reopen".into());
                }
                ctx.count("reopens", 1);
            }
            3 | 4 => {
                // local write attempt
                let del = rng.chance(1, 3);
                let a = &docs[0].authors[rng.below(2)];
                iroh_docs::verif::set_clock(docs[d].t0 + tick);
                let res = match store.open_replica(&id) {
                    Err(e) => Err(format!("open:{e:?}")),
                    Ok(mut r) => {
                        let k = vec![b'k', rng.below(3) as u8];
                        let (h, l) = content(rng.below(4));
                        let res = if del { block_on(r.delete_prefix(&k, a)) } else { block_on(r.insert(&k, a, h, l)) };
                        Ok(res)
                    }
                };
                store.close_replica(id);
                iroh_docs::verif::set_clock(0);
                trace.push(format!("local {} doc{d} -> {res:?}", if del { "delete" } else { "insert" }));
                ctx.count("local_write_attempts", 1);
                let ok = match (&res, caps[d]) {
                    (Err(_), Cap::None) => true,
                    (Ok(Err(InsertError::ReadOnly)), Cap::Read) => true,
                    (Ok(Ok(_)), Cap::Write) | (Ok(Err(InsertError::NewerEntryExists)), Cap::Write) => true,
                    _ => false,
                };
                if !ok {
                    let sig = match (&res, caps[d]) {
                        (Ok(Ok(_)), Cap::Read) => "read-only-replica-authored-an-entry",
                        (Ok(Err(InsertError::ReadOnly)), Cap::Write) => "write-capability-lost",
                        _ => "local-write-result-unexpected",
                    };
                    ctx.violation(case, sig, json!({"doc": d, "cap": format!("{:?}", caps[d]), "step": step, "trace": trace}));
                    return;
                }
            }
            5 => {
                // valid remote entry
                let e = docs[d].entry(rng.below(2), &[b'r', rng.below(3) as u8], docs[d].t0 + tick, Some(rng.below(4)));
                let res = match store.open_replica(&id) {
                    Err(e) => Err(format!("open:{e:?}")),
                    Ok(mut r) => Ok(block_on(r.insert_remote_entry(e, PEER, ContentStatus::Complete))),
                };
                store.close_replica(id);
                trace.push(format!("remote doc{d} -> {res:?}"));
                ctx.count("remote_inserts", 1);
                let ok = match (&res, caps[d]) {
                    (Err(_), Cap::None) => true,
                    (Ok(Ok(_)), Cap::Read | Cap::Write) | (Ok(Err(InsertError::NewerEntryExists)), Cap::Read | Cap::Write) => true,
                    _ => false,
                };
                if !ok {
                    ctx.violation(case, if caps[d] == Cap::Read { "read-only-replica-refused-valid-remote-entry" } else { "remote-insert-result-unexpected" },
                        json!({"doc": d, "cap": format!("{:?}", caps[d]), "trace": trace}));
                    return;
                }
            }
            6 if rng.chance(1, 2) => {
                // removal: the document and its capability are gone, until it is imported again
                let r = store.remove_replica(&id);
                trace.push(format!("remove doc{d} -> {}", r.is_ok()));
                ctx.count("removals", 1);
                if r.is_ok() {
                    caps[d] = Cap::None;
                }
            }
            7 => {
                // a store call that fails (it names a document that does not exist) must not cost any
                // other document anything it already had — in particular not a capability imported
                // a moment ago and not yet flushed
                let missing = namespace(77).id();
                let r1 = store.set_download_policy(&missing, iroh_docs::store::DownloadPolicy::default());
                let r2 = store.register_useful_peer(missing, [3u8; 32]);
                trace.push(format!("failing calls on a missing document -> {} {}", r1.is_ok(), r2.is_ok()));
                ctx.count("failing_calls_on_missing_document", 1);
            }
            _ => {
                // merge with a capability of another document must fail and change nothing
                let other = (d + 1) % 3;
                let mut c = if rng.chance(1, 2) { Capability::Read(id) } else { Capability::Write(docs[d].ns.clone()) };
                let before = c.clone();
                let foreign = if rng.chance(1, 2) { Capability::Write(docs[other].ns.clone()) } else { Capability::Read(docs[other].ns.id()) };
                ctx.count("foreign_merges", 1);
                if c.merge(foreign).is_ok() || c.raw() != before.raw() {
                    ctx.violation(case, "capability-merged-across-documents", json!({"trace": trace}));
                    return;
                }
            }
        }
        // listing takes a snapshot and thereby commits the open batch: do it only now and then, so
        // that several operations share one uncommitted batch (always after the last step)
        if step + 1 < n_steps && rng.chance(1, 2) {
            continue;
        }
        match kinds(&mut store) {
            Ok(k) => {
                ctx.count("kind_checks", 1);
                let want = model_kinds(&docs, &caps);
                if k != want {
                    let sig = if caps.iter().zip(&docs).any(|(c, d)| *c == Cap::Write && k.get(&d.ns.id()).map(|s| s == "Read").unwrap_or(false)) {
                        "write-capability-downgraded"
                    } else {
                        "listed-capabilities-differ"
                    };
                    ctx.violation(case, sig, json!({"got": format!("{k:?}"), "expected": format!("{want:?}"), "trace": trace}));
                    return;
                }
            }
            Err(e) => {
                ctx.violation(case, "list-namespaces-failed", json!({"err": format!("{e:?}")}));
                return;
            }
        }
    }
    if upgraded {
        ctx.nontrivial(h64(format!("{trace:?}").as_bytes()));
    }
    if ctx.want_sample() {
        ctx.sample(json!({"case": case, "mode": "store", "trace": trace}));
    }
}

async fn actor_steps(ctx: &mut Ctx, case: u64, rng: &mut Rng, h: &SyncHandle, docs: &[Universe]) -> Result<(bool, Vec<String>), String> {
    let mut caps = vec![Cap::None; docs.len()];
    let mut open = vec![0usize; docs.len()];
    let mut trace = vec![];
    let mut upgraded = false;
    let mut tick = 0;
    // helper document with a bounded subscriber, created on first use (see the abandoned import step)
    let mut busy: Option<Option<(NamespaceId, async_channel::Receiver<iroh_docs::Event>)>> = None;
    for a in &docs[0].authors {
        h.import_author(a.clone()).await.map_err(|e| e.to_string())?;
    }
    for _ in 0..rng.range(4, 30) {
        let d = rng.below(docs.len());
        let id = docs[d].ns.id();
        tick += 1;
        match rng.below(9) {
            0 | 1 if rng.chance(1, 4) => {
                // An import whose caller gives up while the actor is busy (it waits in event delivery
                // for a subscriber of another document whose channel is full), followed by the same
                // import awaited to the end: from that acknowledgement on the capability is held,
                // also by the replica that is open.
                let write = rng.chance(2, 3);
                let cap = if write { Capability::Write(docs[d].ns.clone()) } else { Capability::Read(id) };
                let z = busy.get_or_insert_with(|| None);
                if z.is_none() {
                    let zs = namespace(9);
                    let (tx, rx) = async_channel::bounded::<iroh_docs::Event>(1);
                    h.import_namespace(Capability::Write(zs.clone())).await.map_err(|e| format!("import: {e}"))?;
                    h.open(zs.id(), OpenOpts::default().subscribe(tx)).await.map_err(|e| format!("open: {e}"))?;
                    *z = Some((zs.id(), rx));
                }
                let (zid, zrx) = z.as_ref().unwrap();
                let a = docs[0].authors[0].id();
                // fill the subscriber's channel, then send the request that makes the actor wait
                while zrx.try_recv().is_ok() {}
                let (hh, l) = content(1);
                let _ = h.insert_local(*zid, a, vec![b'z', (tick % 250) as u8, 0].into(), hh, l).await;
                let blocked = {
                    let h2 = h.clone();
                    let zid = *zid;
                    let k: bytes::Bytes = vec![b'z', (tick % 250) as u8, 1].into();
                    tokio::spawn(async move { h2.insert_local(zid, a, k, hh, l).await })
                };
                tokio::time::sleep(std::time::Duration::from_millis(2)).await;
                let gave_up = tokio::time::timeout(std::time::Duration::from_millis(2), h.import_namespace(cap.clone())).await.is_err();
                // the subscriber catches up; the actor finishes the insert and reaches the abandoned import
                let t = std::time::Instant::now();
                while !blocked.is_finished() && t.elapsed() < std::time::Duration::from_secs(20) {
                    while zrx.try_recv().is_ok() {}
                    tokio::time::sleep(std::time::Duration::from_millis(1)).await;
                }
                let _ = blocked.await;
                while zrx.try_recv().is_ok() {}
                if gave_up {
                    ctx.count("imports_whose_caller_gave_up_while_the_actor_was_busy", 1);
                }
                // the same import again, this time awaited
                h.import_namespace(cap).await.map_err(|e| format!("import: {e}"))?;
                if caps[d] == Cap::Read && write {
                    upgraded = true;
                }
                caps[d] = caps[d].max(if write { Cap::Write } else { Cap::Read });
                trace.push(format!("import doc{d} {} (caller gave up: {gave_up}), then the same import acknowledged", if write { "write" } else { "read" }));
                ctx.count("imports", 1);
            }
            0 | 1 => {
                let write = rng.chance(1, 2);
                let cap = if write { Capability::Write(docs[d].ns.clone()) } else { Capability::Read(id) };
                if caps[d] == Cap::Read && write {
                    upgraded = true;
                }
                caps[d] = caps[d].max(if write { Cap::Write } else { Cap::Read });
                h.import_namespace(cap).await.map_err(|e| format!("import: {e}"))?;
                trace.push(format!("import doc{d} {}", if write { "write" } else { "read" }));
                ctx.count("imports", 1);
            }
            2 => {
                let r = h.open(id, OpenOpts::default().sync()).await;
                trace.push(format!("open doc{d} -> {}", r.is_ok()));
                if r.is_ok() != (caps[d] != Cap::None) {
                    ctx.violation(case, "open-result-unexpected", json!({"doc": d, "cap": format!("{:?}", caps[d]), "trace": trace}));
                    return Ok((false, trace));
                }
                if r.is_ok() {
                    open[d] += 1;
                }
            }
            3 => {
                let _ = h.close(id).await;
                open[d] = open[d].saturating_sub(1);
                trace.push(format!("close doc{d}"));
            }
            4 | 5 => {
                iroh_docs::verif::set_clock(docs[d].t0 + tick);
                let a = docs[0].authors[rng.below(2)].id();
                let del = rng.chance(1, 3);
                let k: bytes::Bytes = vec![b'k', rng.below(3) as u8].into();
                let (hh, l) = content(rng.below(4));
                let r = if del { h.delete_prefix(id, a, k).await.map(|_| ()) } else { h.insert_local(id, a, k, hh, l).await };
                iroh_docs::verif::set_clock(0);
                let msg = r.as_ref().err().map(|e| format!("{e:#}")).unwrap_or_default();
                trace.push(format!("local doc{d} -> {}", if r.is_ok() { "ok".into() } else { msg.clone() }));
                ctx.count("local_write_attempts", 1);
                let should = open[d] > 0 && caps[d] == Cap::Write;
                let superseded = msg.contains("newer entry exists") || msg.contains("A newer entry");
                if r.is_ok() && !should {
                    let sig = if caps[d] == Cap::Read { "read-only-replica-authored-an-entry" } else { "local-write-succeeded-unexpectedly" };
                    ctx.violation(case, sig, json!({"doc": d, "trace": trace}));
                    return Ok((false, trace));
                }
                if r.is_err() && should && !superseded {
                    let sig = if msg.contains("read only") { "open-replica-did-not-follow-the-upgrade" } else { "local-write-failed-unexpectedly" };
                    ctx.violation(case, sig, json!({"doc": d, "err": msg, "trace": trace}));
                    return Ok((false, trace));
                }
            }
            8 => {
                // removal: releases one handle first and is refused while another one is held
                let r = h.drop_replica(id).await;
                let still_held = open[d] > 1;
                trace.push(format!("drop doc{d} -> {}", r.is_ok()));
                ctx.count("drops", 1);
                if r.is_ok() == still_held {
                    ctx.violation(case, if r.is_ok() { "document-removed-while-another-handle-is-held" } else { "removal-of-closed-document-failed" }, json!({"doc": d, "handles": open[d], "trace": trace}));
                    return Ok((false, trace));
                }
                open[d] = open[d].saturating_sub(1);
                if r.is_ok() {
                    caps[d] = Cap::None;
                    open[d] = 0;
                }
            }
            6 => {
                let r = h.export_secret_key(id).await;
                trace.push(format!("export doc{d} -> {}", r.is_ok()));
                ctx.count("exports", 1);
                let should = open[d] > 0 && caps[d] == Cap::Write;
                if r.is_ok() != should || r.as_ref().ok().map(|s| s.to_bytes() != docs[d].ns.to_bytes()).unwrap_or(false) {
                    ctx.violation(case, if should {"secret-key-not-exported-by-write-replica"} else {"secret-key-exported-without-write-capability"}, json!({"doc": d, "trace": trace}));
                    return Ok((false, trace));
                }
            }
            _ => {
                let e = docs[d].entry(rng.below(2), &[b'r', rng.below(3) as u8], docs[d].t0 + tick, Some(rng.below(4)));
                let r = h.insert_remote(id, e, PEER, ContentStatus::Complete).await;
                let msg = r.as_ref().err().map(|e| format!("{e:#}")).unwrap_or_default();
                trace.push(format!("remote doc{d} -> {}", if r.is_ok() { "ok".into() } else { msg.clone() }));
                ctx.count("remote_inserts", 1);
                let should = open[d] > 0;
                if r.is_err() && should && !msg.contains("newer entry") && !msg.contains("A newer entry") {
                    ctx.violation(case, "valid-remote-entry-refused", json!({"doc": d, "cap": format!("{:?}", caps[d]), "err": msg, "trace": trace}));
                    return Ok((false, trace));
                }
                if r.is_ok() && !should {
                    ctx.violation(case, "remote-insert-into-closed-document", json!({"doc": d, "trace": trace}));
                    return Ok((false, trace));
                }
            }
        }
    }
    Ok((upgraded, trace))
}

fn actor_case(ctx: &mut Ctx, case: u64, rng: &mut Rng) {
    let docs: Vec<Universe> = (1..=3).map(|i| Universe::with(namespace(i), 2)).collect();
    let rt = act::runtime(1);
    let res = rt.block_on(async {
        let h = act::spawn(Store::memory());
        let r = actor_steps(ctx, case, rng, &h, &docs).await;
        let _ = h.shutdown().await;
        r
    });
    match res {
        Err(e) => ctx.violation(case, "actor-request-failed", json!({"err": e})),
        Ok((upgraded, trace)) => {
            if upgraded {
                ctx.nontrivial(h64(format!("{trace:?}").as_bytes()));
            }
            if ctx.want_sample() && case % 7 == 2 {
                ctx.sample(json!({"case": case, "mode": "actor", "trace": trace}));
            }
        }
    }
}
