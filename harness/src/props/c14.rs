//! C14 — the store actor honours open/close counting and the sync switch.
//!
//! Sequential histories are compared step by step with the specification of DESIGN Appendix B;
//! concurrent histories (2–4 clients) are checked for linearizability against the same
//! specification, partitioned by document.

use std::{
    collections::{BTreeMap, HashSet},
    sync::{
        atomic::{AtomicU64, Ordering},
        Arc,
    },
};

use iroh_docs::{
    actor::{OpenOpts, SyncHandle},
    store::Store,
    Capability, ContentStatus, Event, NamespaceId, SignedEntry,
};
use serde_json::json;

use crate::{
    act,
    ctx::Ctx,
    gen::{namespace, Universe},
    model::{Model, E},
    rng::{h64, Rng},
    util::dump_model,
};

#[derive(Clone, Debug, PartialEq, Eq, Hash)]
pub enum Op {
    ImportRead,
    ImportWrite,
    Open { sync: bool, subscribe: bool },
    Close,
    SetSync(bool),
    Subscribe,
    InsertLocal { author: usize, key: Vec<u8>, content: usize },
    DeletePrefix { author: usize, key: Vec<u8> },
    InsertRemote { author: usize, key: Vec<u8>, ts_off: u64, content: Option<usize> },
    InitialMessage,
    /// a reconciliation message carrying one entry (gated by the sync switch like the others)
    ProcessMessage { author: usize, key: Vec<u8>, ts_off: u64, content: Option<usize> },
    GetExact { author: usize, key: Vec<u8> },
    GetMany,
    GetState,
    Drop,
}

#[derive(Clone, Debug, PartialEq, Eq, Hash)]
pub enum Reply {
    Ok,
    Bool(bool),
    Count(usize),
    Err,
    State { handles: usize, sync: bool, subscribers: usize },
    Entry(Option<String>),
    Entries(Vec<String>),
}

#[derive(Clone, Copy, PartialEq, Eq, PartialOrd, Ord, Debug, Hash)]
enum Cap {
    None,
    Read,
    Write,
}

/// Sequential specification of one document behind the actor.
#[derive(Clone, Debug)]
pub struct DocSpec {
    cap: Cap,
    open: Option<(usize, bool, usize)>, // handles, sync, subscribers
    entries: Model,
}

impl DocSpec {
    fn new() -> Self {
        DocSpec { cap: Cap::None, open: None, entries: Model::new() }
    }
    fn key(&self) -> u64 {
        h64(format!("{:?}{:?}{:?}", self.cap, self.open, self.entries.short()).as_bytes())
    }
    /// `t` is the fixed clock used for local writes.
    fn apply(&mut self, op: &Op, uni: &Universe, t: u64) -> Reply {
        match op {
            Op::ImportRead => {
                self.cap = self.cap.max(Cap::Read);
                Reply::Ok
            }
            Op::ImportWrite => {
                self.cap = self.cap.max(Cap::Write);
                Reply::Ok
            }
            Op::Open { sync, subscribe } => match &mut self.open {
                None => {
                    if self.cap == Cap::None {
                        return Reply::Err;
                    }
                    self.open = Some((1, *sync, *subscribe as usize));
                    Reply::Ok
                }
                Some((h, s, subs)) => {
                    *h += 1;
                    *s = *s || *sync;
                    *subs += *subscribe as usize;
                    Reply::Ok
                }
            },
            Op::Close => match &mut self.open {
                None => Reply::Bool(true),
                Some((h, _, _)) => {
                    *h -= 1;
                    if *h == 0 {
                        self.open = None;
                        Reply::Bool(true)
                    } else {
                        Reply::Bool(false)
                    }
                }
            },
            Op::SetSync(b) => match &mut self.open {
                None => Reply::Err,
                Some((_, s, _)) => {
                    *s = *b;
                    Reply::Ok
                }
            },
            Op::Subscribe => match &mut self.open {
                None => Reply::Err,
                Some((_, _, subs)) => {
                    *subs += 1;
                    Reply::Ok
                }
            },
            Op::InsertLocal { author, key, content } => {
                if self.open.is_none() || self.cap != Cap::Write {
                    return Reply::Err;
                }
                let e = uni.entry(*author, key, t, Some(*content));
                match self.entries.offer(&e) {
                    Some(_) => Reply::Ok,
                    None => Reply::Err,
                }
            }
            Op::DeletePrefix { author, key } => {
                if self.open.is_none() || self.cap != Cap::Write {
                    return Reply::Err;
                }
                let e = uni.entry(*author, key, t, None);
                match self.entries.offer(&e) {
                    Some(n) => Reply::Count(n),
                    None => Reply::Err,
                }
            }
            Op::InsertRemote { author, key, ts_off, content } => {
                if !matches!(self.open, Some((_, true, _))) {
                    return Reply::Err;
                }
                let e = uni.entry(*author, key, uni.t0 + ts_off, *content);
                match self.entries.offer(&e) {
                    Some(_) => Reply::Ok,
                    None => Reply::Err,
                }
            }
            Op::InitialMessage => {
                if matches!(self.open, Some((_, true, _))) {
                    Reply::Ok
                } else {
                    Reply::Err
                }
            }
            Op::ProcessMessage { author, key, ts_off, content } => {
                if !matches!(self.open, Some((_, true, _))) {
                    return Reply::Err;
                }
                let e = uni.entry(*author, key, uni.t0 + ts_off, *content);
                let _ = self.entries.offer(&e); // a superseded entry is silently not applied
                Reply::Ok
            }
            Op::GetExact { author, key } => {
                if self.open.is_none() {
                    return Reply::Err;
                }
                let a = uni.authors[*author].id().to_bytes();
                Reply::Entry(self.entries.map.get(&(a, key.clone())).map(|e| E::of(e).short()))
            }
            Op::GetMany => {
                if self.open.is_none() {
                    return Reply::Err;
                }
                Reply::Entries(self.entries.short())
            }
            Op::GetState => match &self.open {
                None => Reply::Err,
                Some((h, s, subs)) => Reply::State { handles: *h, sync: *s, subscribers: *subs },
            },
            Op::Drop => {
                // releases one handle first; refused if the document is still open afterwards
                if let Some((h, _, _)) = &mut self.open {
                    *h -= 1;
                    if *h == 0 {
                        self.open = None;
                    }
                }
                if self.open.is_some() {
                    return Reply::Err;
                }
                self.cap = Cap::None;
                self.entries = Model::new();
                Reply::Ok
            }
        }
    }
}

struct Client<'a> {
    h: &'a SyncHandle,
    uni: &'a Universe,
    keep: Arc<std::sync::Mutex<Vec<async_channel::Receiver<Event>>>>,
}

impl Client<'_> {
    async fn exec(&self, op: &Op) -> Reply {
        let ns = self.uni.ns.id();
        let h = self.h;
        let ok = |r: anyhow::Result<()>| if r.is_ok() { Reply::Ok } else { Reply::Err };
        match op {
            Op::ImportRead => ok(h.import_namespace(Capability::Read(ns)).await.map(|_| ())),
            Op::ImportWrite => ok(h.import_namespace(Capability::Write(self.uni.ns.clone())).await.map(|_| ())),
            Op::Open { sync, subscribe } => {
                let mut o = OpenOpts::default();
                if *sync {
                    o = o.sync();
                }
                if *subscribe {
                    let (tx, rx) = async_channel::unbounded();
                    self.keep.lock().unwrap().push(rx);
                    o = o.subscribe(tx);
                }
                ok(h.open(ns, o).await)
            }
            Op::Close => match h.close(ns).await {
                Ok(b) => Reply::Bool(b),
                Err(_) => Reply::Err,
            },
            Op::SetSync(b) => ok(h.set_sync(ns, *b).await),
            Op::Subscribe => {
                let (tx, rx) = async_channel::unbounded();
                self.keep.lock().unwrap().push(rx);
                ok(h.subscribe(ns, tx).await)
            }
            Op::InsertLocal { author, key, content } => {
                let (hash, len) = crate::gen::content(*content);
                ok(h.insert_local(ns, self.uni.authors[*author].id(), key.clone().into(), hash, len).await)
            }
            Op::DeletePrefix { author, key } => match h.delete_prefix(ns, self.uni.authors[*author].id(), key.clone().into()).await {
                Ok(n) => Reply::Count(n),
                Err(_) => Reply::Err,
            },
            Op::InsertRemote { author, key, ts_off, content } => {
                let e = self.uni.entry(*author, key, self.uni.t0 + ts_off, *content);
                ok(h.insert_remote(ns, e, [3u8; 32], ContentStatus::Complete).await)
            }
            Op::InitialMessage => ok(h.sync_initial_message(ns).await.map(|_| ())),
            Op::ProcessMessage { author, key, ts_off, content } => {
                let e = self.uni.entry(*author, key, self.uni.t0 + ts_off, *content);
                let zero = vec![0u8; 64];
                let m = crate::wire::RawMessage { parts: vec![crate::wire::RawPart::Item { x: zero.clone(), y: zero, values: vec![(crate::wire::RawEntry::of(&e), 0)], have_local: true }] };
                ok(h.sync_process_message(ns, m.into_message().unwrap(), [4u8; 32], iroh_docs::SyncOutcome::default()).await.map(|_| ()))
            }
            Op::GetExact { author, key } => match h.get_exact(ns, self.uni.authors[*author].id(), key.clone().into(), true).await {
                Ok(e) => Reply::Entry(e.map(|e| E::of(&e).short())),
                Err(_) => Reply::Err,
            },
            Op::GetMany => match act::dump(h, ns).await {
                Ok(v) => Reply::Entries(Model::from_entries(v).short()),
                Err(_) => Reply::Err,
            },
            Op::GetState => match h.get_state(ns).await {
                Ok(s) => Reply::State { handles: s.handles, sync: s.sync, subscribers: s.subscribers },
                Err(_) => Reply::Err,
            },
            Op::Drop => ok(h.drop_replica(ns).await),
        }
    }
}

fn gen_op(rng: &mut Rng, n_authors: usize, uniq: &mut u64, client: usize, unique_keys: bool, known: &mut Vec<Vec<u8>>) -> Op {
    let mut keyspace = |rng: &mut Rng, uniq: &mut u64| -> Vec<u8> {
        let k = if unique_keys {
            *uniq += 1;
            vec![b'c', client as u8, (*uniq >> 8) as u8, *uniq as u8]
        } else {
            vec![b'k', rng.below(3) as u8]
        };
        known.push(k.clone());
        k
    };
    match rng.below(22) {
        0 => Op::ImportRead,
        1 | 2 => Op::ImportWrite,
        3..=5 => Op::Open { sync: rng.chance(1, 2), subscribe: rng.chance(1, 3) },
        6 | 7 => Op::Close,
        8 => Op::SetSync(rng.chance(1, 2)),
        9 => Op::Subscribe,
        10..=12 => Op::InsertLocal { author: rng.below(n_authors), key: keyspace(rng, uniq), content: rng.below(4) },
        13 => Op::DeletePrefix {
            author: rng.below(n_authors),
            key: if unique_keys {
                if rng.chance(1, 2) { vec![b'c'] } else { vec![b'c', rng.below(4) as u8] }
            } else if rng.chance(1, 2) {
                vec![b'k']
            } else {
                keyspace(rng, uniq)
            },
        },
        14 | 15 => Op::InsertRemote { author: rng.below(n_authors), key: keyspace(rng, uniq), ts_off: rng.below(6) as u64, content: if rng.chance(1, 4) { None } else { Some(rng.below(4)) } },
        16 => {
            if rng.chance(1, 2) {
                Op::InitialMessage
            } else {
                Op::ProcessMessage { author: rng.below(n_authors), key: keyspace(rng, uniq), ts_off: rng.below(6) as u64, content: if rng.chance(1, 4) { None } else { Some(rng.below(4)) } }
            }
        }
        17 | 18 => {
            drop(keyspace);
            let key = if known.is_empty() { vec![b'k', rng.below(3) as u8] } else { rng.pick(known).clone() };
            Op::GetExact { author: rng.below(n_authors), key }
        }
        19 => Op::GetMany,
        20 => Op::GetState,
        _ => Op::Drop,
    }
}

pub fn run(ctx: &mut Ctx) {
    let mut n = 0u64;
    for case in ctx.cases(2_500, 200_000) {
        let mut rng = ctx.rng(case);
        n += 1;
        // once per shard (thorough: every 600th case): a reader that pauses for seconds
        if n == 40 || (!ctx.is_quick() && n % 1500 == 40) {
            stalled_reader_case(ctx, case, &mut rng);
            continue;
        }
        if case % 3 == 0 {
            concurrent_case(ctx, case, &mut rng);
        } else {
            sequential_case(ctx, case, &mut rng);
        }
        iroh_docs::verif::set_clock(0);
    }
}

fn sequential_case(ctx: &mut Ctx, case: u64, rng: &mut Rng) {
    iroh_docs::verif::age_transaction_at(usize::MAX);
    let docs: Vec<Universe> = (1..=2).map(|i| Universe::with(namespace(i), 2)).collect();
    let t = docs[0].t0 + 100;
    iroh_docs::verif::set_clock(t);
    let rt = act::runtime(1);
    let mut specs = vec![DocSpec::new(), DocSpec::new()];
    let mut trace: Vec<String> = vec![];
    let mut gated = 0;
    let mut store_back = None;
    rt.block_on(async {
        let mut store = Store::memory();
        for a in &docs[0].authors {
            store.import_author(a.clone()).unwrap();
        }
        let h = act::spawn(store);
        let clients: Vec<Client> = docs.iter().map(|u| Client { h: &h, uni: u, keep: Default::default() }).collect();
        let mut uniq = 0;
        let mut known = vec![];
        // the authors are the store's, not a document's: deleting one and importing it again are
        // requests like any other, and later local writes must reflect them (added after seeded
        // change agent-C14-7)
        let mut author_known = [true, true];
        for _ in 0..rng.range(5, 40) {
            // One step in six has the store's age-based commit fall inside one of its next accesses
            // (hook H6; added after seeded change agent-C14-9): what was acknowledged stays
            // acknowledged wherever the batch is cut.
            if rng.chance(1, 6) {
                iroh_docs::verif::age_transaction_at(iroh_docs::verif::store_accesses() + rng.below(4));
                ctx.count("steps_with_the_age_based_commit_forced", 1);
            }
            if rng.chance(1, 14) {
                let i = rng.below(2);
                let a = &docs[0].authors[i];
                if author_known[i] && rng.chance(2, 3) {
                    let r = h.delete_author(a.id()).await;
                    trace.push(format!("delete author {i} -> {}", r.is_ok()));
                    if r.is_err() {
                        ctx.violation(case, "delete-author-failed", json!({"trace": trace}));
                        return;
                    }
                    author_known[i] = false;
                    ctx.count("authors_deleted", 1);
                    match h.export_author(a.id()).await {
                        Ok(None) => {}
                        other => {
                            ctx.violation(case, "deleted-author-still-exported", json!({"got": format!("{:?}", other.map(|o| o.is_some())), "trace": trace}));
                            return;
                        }
                    }
                } else {
                    let r = h.import_author(a.clone()).await;
                    trace.push(format!("import author {i} -> {}", r.is_ok()));
                    if r.is_err() {
                        ctx.violation(case, "import-author-failed", json!({"trace": trace}));
                        return;
                    }
                    author_known[i] = true;
                }
                continue;
            }
            // a request the store must refuse (it names a document the store does not have): it is
            // answered with an error and costs no document an acknowledged write (added after seeded
            // change agent-C14-8)
            if rng.chance(1, 14) {
                let missing = iroh_docs::NamespaceSecret::from_bytes(&[0xE4; 32]).id();
                let r = if rng.chance(1, 2) {
                    h.set_download_policy(missing, iroh_docs::store::DownloadPolicy::default()).await.is_ok()
                } else {
                    h.register_useful_peer(missing, [3u8; 32]).await.is_ok()
                };
                trace.push(format!("a request for a document the store does not have -> {}", if r { "ok" } else { "refused" }));
                ctx.count("requests_for_a_missing_document", 1);
                if r {
                    ctx.violation(case, "request-for-a-missing-document-succeeded", json!({"trace": trace}));
                    return;
                }
                continue;
            }
            // store-wide reads through the handle: they, too, are answered in request order and
            // reflect every earlier request (added in round 7 after the coverage run showed that no
            // history ever issued them)
            if rng.chance(1, 12) {
                ctx.count("store_wide_reads", 1);
                match rng.below(4) {
                    0 => {
                        let (tx, mut rx) = irpc::channel::mpsc::channel::<iroh_docs::api::RpcResult<iroh_docs::api::protocol::ListResponse>>(64);
                        let _ = h.list_replicas(tx).await;
                        let mut got = BTreeMap::new();
                        while let Ok(Some(Ok(r))) = rx.recv().await {
                            got.insert(r.id, format!("{:?}", r.capability));
                        }
                        let mut want = BTreeMap::new();
                        for (d, u) in docs.iter().enumerate() {
                            match specs[d].cap {
                                Cap::None => {}
                                Cap::Read => {
                                    want.insert(u.ns.id(), "Read".to_string());
                                }
                                Cap::Write => {
                                    want.insert(u.ns.id(), "Write".to_string());
                                }
                            }
                        }
                        trace.push(format!("list documents -> {}", got.len()));
                        if got != want {
                            ctx.violation(case, "document-list-does-not-reflect-earlier-requests", json!({"got": got.values().collect::<Vec<_>>(), "expected": want.values().collect::<Vec<_>>(), "trace": trace}));
                            return;
                        }
                    }
                    1 => {
                        let (tx, mut rx) = irpc::channel::mpsc::channel::<iroh_docs::api::RpcResult<iroh_docs::api::protocol::AuthorListResponse>>(64);
                        let _ = h.list_authors(tx).await;
                        let mut got = std::collections::BTreeSet::new();
                        while let Ok(Some(Ok(r))) = rx.recv().await {
                            got.insert(r.author_id.to_bytes());
                        }
                        let want: std::collections::BTreeSet<[u8; 32]> = docs[0].authors.iter().enumerate().filter(|(i, _)| author_known[*i]).map(|(_, a)| a.id().to_bytes()).collect();
                        trace.push(format!("list authors -> {}", got.len()));
                        if got != want {
                            ctx.violation(case, "author-list-does-not-reflect-earlier-requests", json!({"got": got.len(), "expected": want.len(), "trace": trace}));
                            return;
                        }
                    }
                    2 => {
                        let got: Option<std::collections::BTreeSet<[u8; 32]>> = match h.content_hashes().await {
                            Ok(it) => it.map(|r| r.ok().map(|h| *h.as_bytes())).collect(),
                            Err(_) => None,
                        };
                        let empty = *iroh_blobs::Hash::EMPTY.as_bytes();
                        let mut want = std::collections::BTreeSet::new();
                        for sp in specs.iter() {
                            for e in sp.entries.plain() {
                                want.insert(e.hash);
                            }
                        }
                        want.remove(&empty);
                        trace.push("content hashes".to_string());
                        match got {
                            Some(mut g) => {
                                g.remove(&empty);
                                if g != want {
                                    ctx.violation(case, "content-hashes-do-not-reflect-earlier-requests", json!({"got": g.len(), "expected": want.len(), "trace": trace}));
                                    return;
                                }
                            }
                            None => {
                                ctx.violation(case, "content-hashes-failed", json!({"trace": trace}));
                                return;
                            }
                        }
                    }
                    _ => {
                        let r = h.flush_store().await;
                        trace.push(format!("flush -> {}", r.is_ok()));
                        if r.is_err() {
                            ctx.violation(case, "flush-failed", json!({"trace": trace}));
                            return;
                        }
                    }
                }
                continue;
            }
            // sometimes a pipelined batch: several requests are sent without waiting for the replies
            // (they are sent in order, so the replies must be those of the sequential order)
            if rng.chance(1, 6) {
                let k = rng.range(2, 6);
                let batch: Vec<(usize, Op)> = (0..k)
                    .map(|_| (rng.below(2), gen_op(rng, 2, &mut uniq, 0, false, &mut known)))
                    .map(|(d, op)| if matches!(op, Op::Drop) { (d, Op::GetState) } else { (d, op) })
                    .collect();
                let futs = batch.iter().map(|(d, op)| clients[*d].exec(op));
                // (polled in order by hand: each first poll sends the request; no third-party join combinator,
                // whose fence-based waker refcount ThreadSanitizer misreports)
                let got: Vec<Reply> = {
                    let mut futs: Vec<_> = futs.map(|f| (Box::pin(f), None::<Reply>)).collect();
                    std::future::poll_fn(|cx| {
                        let mut all = true;
                        for (f, out) in futs.iter_mut() {
                            if out.is_none() {
                                match std::future::Future::poll(f.as_mut(), cx) {
                                    std::task::Poll::Ready(r) => *out = Some(r),
                                    std::task::Poll::Pending => all = false,
                                }
                            }
                        }
                        if all { std::task::Poll::Ready(()) } else { std::task::Poll::Pending }
                    })
                    .await;
                    futs.into_iter().map(|(_, o)| o.unwrap()).collect()
                };
                ctx.count("pipelined_batches", 1);
                let mut bad = None;
                for ((d, op), g) in batch.iter().zip(got.iter()) {
                    let want = apply_with_authors(&mut specs[*d], op, &docs[*d], t, &author_known);
                    trace.push(format!("doc{d} (pipelined) {op:?} -> {g:?}"));
                    ctx.count("sequential_steps", 1);
                    if *g != want && bad.is_none() {
                        bad = Some(want);
                    }
                }
                if let Some(want) = bad {
                    ctx.violation(case, "pipelined-replies-differ-from-request-order-semantics", json!({"expected_first_mismatch": format!("{want:?}"), "trace": trace}));
                    return;
                }
                continue;
            }
            // sometimes the caller stops waiting right after its request was sent (a cancelled
            // call): the request is in the actor's queue, so later replies must reflect it
            if rng.chance(1, 10) {
                let d = rng.below(2);
                let op = gen_op(rng, 2, &mut uniq, 0, false, &mut known);
                if matches!(op, Op::SetSync(_) | Op::Subscribe | Op::InsertLocal { .. } | Op::DeletePrefix { .. } | Op::InsertRemote { .. } | Op::ProcessMessage { .. } | Op::ImportWrite | Op::ImportRead) {
                    {
                        let mut fut = Box::pin(clients[d].exec(&op));
                        // one poll sends the request (the queue is never full here), then the future is dropped
                        let waker = std::task::Waker::noop();
                        let mut cx = std::task::Context::from_waker(waker);
                        let _ = std::future::Future::poll(fut.as_mut(), &mut cx);
                    }
                    let _ = apply_with_authors(&mut specs[d], &op, &docs[d], t, &author_known);
                    trace.push(format!("doc{d} (sent, reply not awaited) {op:?}"));
                    ctx.count("requests_sent_without_awaiting_the_reply", 1);
                    // the next awaited request is answered after it (FIFO): compare the open state
                    let gs = clients[d].exec(&Op::GetState).await;
                    let ws = specs[d].clone().apply(&Op::GetState, &docs[d], t);
                    let ge = clients[d].exec(&Op::GetMany).await;
                    let we = specs[d].clone().apply(&Op::GetMany, &docs[d], t);
                    if gs != ws || ge != we {
                        ctx.violation(case, "request-whose-caller-stopped-waiting-was-not-executed", json!({"state": format!("{gs:?}"), "expected_state": format!("{ws:?}"), "entries": format!("{ge:?}"), "expected_entries": format!("{we:?}"), "trace": trace}));
                        return;
                    }
                    continue;
                }
            }
            let d = rng.below(2);
            let op = gen_op(rng, 2, &mut uniq, 0, false, &mut known);
            let want = apply_with_authors(&mut specs[d], &op, &docs[d], t, &author_known);
            let got = clients[d].exec(&op).await;
            trace.push(format!("doc{d} {op:?} -> {got:?}"));
            ctx.count("sequential_steps", 1);
            if want == Reply::Err {
                gated += 1;
            }
            if got != want {
                let sig = classify(&op, &want, &got);
                ctx.violation(case, &sig, json!({"expected": format!("{want:?}"), "trace": trace}));
                return;
            }
            if matches!(op, Op::Drop) && want == Reply::Err {
                // handle count after a refused drop is not part of the statement: adopt it
                if let Ok(s) = h.get_state(docs[d].ns.id()).await {
                    if let Some(o) = &mut specs[d].open {
                        o.0 = s.handles;
                    }
                }
            }
            // get_state after every step
            let gs = clients[d].exec(&Op::GetState).await;
            let ws = specs[d].clone().apply(&Op::GetState, &docs[d], t);
            if gs != ws {
                ctx.violation(case, "open-state-differs-from-specification", json!({"got": format!("{gs:?}"), "expected": format!("{ws:?}"), "trace": trace}));
                return;
            }
        }
        store_back = h.shutdown().await.ok();
    });
    ctx.eval();
    // shutdown hands back a store with every acknowledged write
    if let Some(mut store) = store_back {
        for (d, u) in docs.iter().enumerate() {
            ctx.count("shutdown_store_checks", 1);
            match dump_model(&mut store, u.ns.id()) {
                Ok(m) if m == specs[d].entries => {}
                other => {
                    ctx.violation(case, "store-returned-by-shutdown-differs-from-acknowledged-writes", json!({"doc": d,
                        "got": other.map(|m| m.short()).unwrap_or_default(), "expected": specs[d].entries.short(), "trace": trace}));
                    return;
                }
            }
        }
    } else if ctx.violations.is_empty() {
        ctx.violation(case, "shutdown-did-not-return-the-store", json!({"trace": trace}));
        return;
    }
    if gated > 0 && trace.len() > 5 {
        ctx.nontrivial(h64(format!("{trace:?}").as_bytes()));
    }
    if ctx.want_sample() {
        ctx.sample(json!({"case": case, "mode": "sequential", "trace": trace}));
    }
}

/// Local writes need their author in the store at the time the request is served.
fn apply_with_authors(spec: &mut DocSpec, op: &Op, uni: &Universe, t: u64, known: &[bool; 2]) -> Reply {
    match op {
        Op::InsertLocal { author, .. } | Op::DeletePrefix { author, .. } if !known[*author] => Reply::Err,
        _ => spec.apply(op, uni, t),
    }
}

fn classify(op: &Op, want: &Reply, got: &Reply) -> String {
    let name = format!("{op:?}");
    let name = name.split(|c: char| !c.is_alphanumeric()).next().unwrap_or("").to_string();
    match (want, got) {
        (Reply::Err, Reply::Err) => unreachable!(),
        (Reply::Err, _) => format!("{name}-succeeded-but-must-fail"),
        (_, Reply::Err) => format!("{name}-failed-but-must-succeed"),
        (Reply::Bool(_), Reply::Bool(_)) => "close-reported-wrong-closed-flag".into(),
        (Reply::State { .. }, Reply::State { .. }) => "open-state-differs-from-specification".into(),
        _ => format!("{name}-reply-differs"),
    }
}

#[derive(Clone, Debug)]
struct Rec {
    client: usize,
    doc: usize,
    op: Op,
    reply: Reply,
    call: u64,
    ret: u64,
}

fn concurrent_case(ctx: &mut Ctx, case: u64, rng: &mut Rng) {
    iroh_docs::verif::age_transaction_at(usize::MAX);
    let docs: Arc<Vec<Universe>> = Arc::new((1..=2).map(|i| Universe::with(namespace(i), 2)).collect());
    let t = docs[0].t0 + 100;
    iroh_docs::verif::set_clock(t);
    let n_clients = rng.range(2, 4);
    let ops_per_client = rng.range(2, if ctx.is_quick() { 5 } else { 6 });
    // pre-generate the programs
    let mut programs: Vec<Vec<(usize, Op)>> = vec![];
    let mut uniq = 0;
    let mut known = vec![];
    for c in 0..n_clients {
        let mut p = vec![];
        for _ in 0..ops_per_client {
            let d = rng.below(2);
            let mut op = gen_op(rng, 2, &mut uniq, c, true, &mut known);
            if matches!(op, Op::Drop) {
                op = Op::GetState; // removal is exercised in the sequential histories
            }
            p.push((d, op));
        }
        programs.push(p);
    }
    let rt = act::runtime(4);
    let clock = Arc::new(AtomicU64::new(0));
    let (records, store_back) = rt.block_on(async {
        let mut store = Store::memory();
        for a in &docs[0].authors {
            store.import_author(a.clone()).unwrap();
        }
        // a prefix both clients may write under, so some operations do interact
        let h = act::spawn(store);
        // documents exist and are open once so that most operations are not trivially refused
        for u in docs.iter() {
            let _ = h.import_namespace(Capability::Write(u.ns.clone())).await;
        }
        let mut tasks = vec![];
        // receivers stay alive until the history is over (a dropped receiver is pruned at the
        // next event, which would change the subscriber count behind the specification's back)
        let keep_all: Arc<std::sync::Mutex<Vec<async_channel::Receiver<Event>>>> = Default::default();
        for (c, prog) in programs.iter().cloned().enumerate() {
            let h = h.clone();
            let keep_all = keep_all.clone();
            let docs = docs.clone();
            let clock = clock.clone();
            tasks.push(tokio::spawn(async move {
                let clients: Vec<Client> = docs.iter().map(|u| Client { h: &h, uni: u, keep: keep_all.clone() }).collect();
                let mut out = vec![];
                for (d, op) in prog {
                    let call = clock.fetch_add(1, Ordering::SeqCst);
                    let reply = clients[d].exec(&op).await;
                    let ret = clock.fetch_add(1, Ordering::SeqCst);
                    out.push(Rec { client: c, doc: d, op, reply, call, ret });
                    if c % 2 == 1 {
                        tokio::task::yield_now().await;
                    }
                }
                out
            }));
        }
        let mut records = vec![];
        for t in tasks {
            match t.await {
                Ok(r) => records.extend(r),
                Err(_) => {}
            }
        }
        let store = h.shutdown().await.ok();
        drop(keep_all);
        (records, store)
    });
    ctx.eval();
    ctx.count("concurrent_histories", 1);
    ctx.count("concurrent_operations", records.len() as u64);
    // overlap actually observed?
    let mut overlapping = 0;
    for a in &records {
        for b in &records {
            if a.client < b.client && a.call < b.ret && b.call < a.ret {
                overlapping += 1;
            }
        }
    }
    ctx.count("overlapping_operation_pairs", overlapping);
    let mut order_sig = records.clone();
    order_sig.sort_by_key(|r| r.call);
    ctx.distinct("interleavings", h64(format!("{:?}", order_sig.iter().map(|r| (r.client, r.call, r.ret)).collect::<Vec<_>>()).as_bytes()));
    // per document: search a linearization
    let mut finals = vec![];
    for d in 0..2 {
        let recs: Vec<Rec> = records.iter().filter(|r| r.doc == d).cloned().collect();
        let mut init = DocSpec::new();
        init.apply(&Op::ImportWrite, &docs[d], t);
        let mut budget = 200_000u64;
        match linearize(&recs, init, &docs[d], t, &mut budget) {
            Lin::Found(spec) => finals.push(Some(spec)),
            Lin::Timeout => {
                ctx.note("linearizability search exceeded its step budget on a history (inconclusive for that history)");
                ctx.count("checker_timeouts", 1);
                finals.push(None);
            }
            Lin::None => {
                let mut hist = recs.clone();
                hist.sort_by_key(|r| r.call);
                ctx.violation(case, "history-not-linearizable", json!({"doc": d,
                    "history": hist.iter().map(|r| format!("c{} [{}..{}] {:?} -> {:?}", r.client, r.call, r.ret, r.op, r.reply)).collect::<Vec<_>>()}));
                return;
            }
        }
    }
    if let Some(mut store) = store_back {
        for (d, u) in docs.iter().enumerate() {
            if let Some(Some(spec)) = finals.get(d) {
                // every acknowledged write is in the store handed back (the final entries do not
                // depend on the linearization chosen: keys are unique, pruning is order independent)
                match dump_model(&mut store, u.ns.id()) {
                    Ok(m) if m == spec.entries => {}
                    other => {
                        ctx.violation(case, "store-returned-by-shutdown-differs-from-acknowledged-writes", json!({"doc": d,
                            "got": other.map(|m| m.short()).unwrap_or_default(), "expected": spec.entries.short()}));
                        return;
                    }
                }
            }
        }
    }
    if overlapping > 0 {
        ctx.nontrivial(h64(format!("{:?}", records.iter().map(|r| (r.client, &r.op, r.call, r.ret)).collect::<Vec<_>>()).as_bytes()));
    }
    if ctx.want_sample() && overlapping > 0 {
        let mut hist = records.clone();
        hist.sort_by_key(|r| r.call);
        ctx.sample(json!({"case": case, "mode": "concurrent", "history": hist.iter().map(|r| format!("c{} doc{} [{}..{}] {:?} -> {:?}", r.client, r.doc, r.call, r.ret, r.op, r.reply)).collect::<Vec<_>>()}));
    }
}

enum Lin {
    Found(DocSpec),
    None,
    Timeout,
}

/// Depth-first search for a total order that respects real time (an operation that returned
/// before another was called comes first) and reproduces every reply.
fn linearize(recs: &[Rec], init: DocSpec, uni: &Universe, t: u64, budget: &mut u64) -> Lin {
    let n = recs.len();
    let mut seen: HashSet<(u64, u64)> = HashSet::new();
    fn go(recs: &[Rec], done: u64, spec: &DocSpec, uni: &Universe, t: u64, seen: &mut HashSet<(u64, u64)>, budget: &mut u64, n: usize) -> Option<Option<DocSpec>> {
        if done == (1u64 << n) - 1 {
            return Some(Some(spec.clone()));
        }
        if *budget == 0 {
            return None;
        }
        *budget -= 1;
        if !seen.insert((done, spec.key())) {
            return Some(None);
        }
        // candidates: not done, and no other pending operation returned before it was called
        let min_ret = (0..n).filter(|i| done & (1 << i) == 0).map(|i| recs[i].ret).min().unwrap();
        for i in 0..n {
            if done & (1 << i) != 0 || recs[i].call > min_ret {
                continue;
            }
            let mut s = spec.clone();
            if s.apply(&recs[i].op, uni, t) == recs[i].reply {
                match go(recs, done | (1 << i), &s, uni, t, seen, budget, n) {
                    None => return None,
                    Some(Some(f)) => return Some(Some(f)),
                    Some(None) => {}
                }
            }
        }
        Some(None)
    }
    match go(recs, 0, &init, uni, t, &mut seen, budget, n) {
        None => Lin::Timeout,
        Some(Some(s)) => Lin::Found(s),
        Some(None) => Lin::None,
    }
}

#[allow(dead_code)]
fn unused(_: BTreeMap<u8, u8>, _: NamespaceId, _: SignedEntry) {}

/// A reader that pauses (added after seeded change agent-C14-10): a streamed reply is a reply like any
/// other — it reflects every request acknowledged before it, however slowly it is taken. The caller
/// reads one item of a `get_many` through a channel of capacity 2, takes nothing out for 5.5 s (longer
/// than any time-out a store actor could reasonably put on a send) and reads on. The pause decides how
/// hard the case is, never the verdict: the items read must be exactly the entries acknowledged.
fn stalled_reader_case(ctx: &mut Ctx, case: u64, rng: &mut Rng) {
    let uni = Universe::with(namespace(1), 2);
    let ns = uni.ns.id();
    let rt = act::runtime(1);
    ctx.eval();
    rt.block_on(async {
        let mut store = Store::memory();
        for a in &uni.authors {
            store.import_author(a.clone()).unwrap();
        }
        let _ = store.import_namespace(Capability::Write(uni.ns.clone()));
        let h = act::spawn(store);
        if h.open(ns, OpenOpts::default()).await.is_err() {
            ctx.harness_error("open failed");
            return;
        }
        let n = rng.range(8, 30);
        let mut want = std::collections::BTreeSet::new();
        for i in 0..n {
            let k = vec![b's', i as u8];
            let (hash, len) = crate::gen::content(i % 4);
            iroh_docs::verif::set_clock(uni.t0 + i as u64);
            if h.insert_local(ns, uni.authors[i % 2].id(), k.clone().into(), hash, len).await.is_ok() {
                want.insert(k);
            }
        }
        iroh_docs::verif::set_clock(0);
        let (tx, mut rx) = irpc::channel::mpsc::channel::<iroh_docs::api::RpcResult<SignedEntry>>(2);
        if h.get_many(ns, iroh_docs::store::Query::all().build(), tx).await.is_err() {
            ctx.violation(case, "get-many-refused-on-an-open-document", json!({}));
            return;
        }
        let mut got = std::collections::BTreeSet::new();
        let mut first = true;
        let mut error = None;
        loop {
            match rx.recv().await {
                Ok(Some(Ok(e))) => {
                    got.insert(e.key().to_vec());
                }
                Ok(Some(Err(e))) => {
                    error = Some(format!("{e:?}"));
                    break;
                }
                Ok(None) => break,
                Err(e) => {
                    error = Some(format!("{e:?}"));
                    break;
                }
            }
            if first {
                first = false;
                tokio::time::sleep(std::time::Duration::from_millis(5500)).await;
            }
        }
        ctx.count("streamed_replies_read_with_a_pause_of_seconds", 1);
        // a reply that ends with an error is a reported failure; one that ends like a complete reply
        // must be complete
        if error.is_none() && got != want {
            ctx.violation(case, "streamed-reply-ended-without-error-but-incomplete", json!({"entries_acknowledged": want.len(), "entries_in_the_reply": got.len()}));
        }
        let _ = h.shutdown().await;
    });
}
