//! C09 — wire and storage encodings round-trip and never crash on hostile bytes.

use std::{
    panic::{catch_unwind, AssertUnwindSafe},
    str::FromStr,
};

use bytes::BytesMut;
use iroh::{EndpointAddr, PublicKey};
use iroh_docs::{
    net::verif::{decode_frame, decode_frame_eof, encode_frame},
    store::{DownloadPolicy, FilterKind, Query},
    sync::ProtocolMessage,
    Author, AuthorHeads, AuthorId, Capability, DocTicket, NamespaceSecret, SignedEntry,
};
use iroh_tickets::Ticket;
use serde_json::json;

use crate::{
    ctx::Ctx,
    gen::Universe,
    rng::{h64, Rng},
    session,
    util::{import_write, new_store, offer_remote, Backend, Scratch},
    wire::{self, varint, RawEntry},
};

/// mirror of the private frame message: postcard bytes
pub fn msg_init(ns: &[u8; 32], m: &[u8]) -> Vec<u8> {
    let mut v = vec![0u8];
    v.extend_from_slice(ns);
    v.extend_from_slice(m);
    v
}
pub fn msg_sync(m: &[u8]) -> Vec<u8> {
    let mut v = vec![1u8];
    v.extend_from_slice(m);
    v
}
pub fn msg_abort(reason: u8) -> Vec<u8> {
    vec![2u8, reason]
}
pub fn frame(msg: &[u8]) -> Vec<u8> {
    let mut v = (msg.len() as u32).to_be_bytes().to_vec();
    v.extend_from_slice(msg);
    v
}

/// Messages of real sessions (all part kinds occur: fingerprints, items with and without values).
pub fn harvest(rng: &mut Rng, scratch: &Scratch) -> (Vec<Vec<u8>>, [u8; 32]) {
    let uni = Universe::new(rng, 1);
    let ns = uni.ns.id();
    let mut stores = vec![];
    for _ in 0..2 {
        let (mut s, _) = new_store(Backend::Memory, scratch);
        import_write(&mut s, &uni.ns);
        let n = rng.range(0, 14);
        for e in uni.entries(rng, n, 3) {
            offer_remote(&mut s, ns, &e);
        }
        stores.push(s);
    }
    let mut b = stores.pop().unwrap();
    let mut a = stores.pop().unwrap();
    let cfg = if rng.chance(1, 2) { None } else { Some((rng.range(2, 4), rng.range(1, 3))) };
    let r = session::run(&mut a, &mut b, ns, cfg, cfg, 64);
    let mut msgs = vec![];
    for (i, m) in r.transcript.iter().enumerate() {
        msgs.push(if i == 0 { msg_init(ns.as_bytes(), m) } else { msg_sync(m) });
    }
    if rng.chance(1, 3) {
        msgs.push(msg_abort(rng.below(3) as u8));
    }
    (msgs, ns.to_bytes())
}

fn guard<T>(ctx: &mut Ctx, case: u64, what: &str, input: &[u8], f: impl FnOnce() -> T) -> Option<T> {
    match catch_unwind(AssertUnwindSafe(f)) {
        Ok(v) => Some(v),
        Err(_) => {
            let p = crate::take_panic();
            let loc = p.as_ref().map(|p| crate::short_loc(&p.0)).unwrap_or_default();
            ctx.violation(case, &format!("panic-in-{what}[{loc}]"), json!({"input_hex": hex::encode(&input[..input.len().min(300)]), "panic": format!("{p:?}")}));
            None
        }
    }
}

pub fn run(ctx: &mut Ctx) {
    let scratch = Scratch::new();
    // pinned encodings, once per shard
    pinned(ctx);
    for case in ctx.cases(300, 60_000) {
        let mut rng = ctx.rng(case);
        ctx.eval();
        match case % 6 {
            0 | 1 => frames_case(ctx, case, &mut rng, &scratch),
            2 => entry_case(ctx, case, &mut rng),
            3 => heads_ticket_case(ctx, case, &mut rng),
            4 => message_case(ctx, case, &mut rng, &scratch),
            _ => misc_case(ctx, case, &mut rng),
        }
    }
}

fn pinned(ctx: &mut Ctx) {
    let author = Author::from_bytes(&[0xa1; 32]);
    let namespace = NamespaceSecret::from_bytes(&[0xb2; 32]);
    let signed = SignedEntry::from_parts(&namespace, &author, b"wire-format-test", iroh_docs::Record::empty(1_700_000_000_000_000u64));
    let bytes = postcard::to_stdvec(&signed).unwrap();
    const SNAP: &str = "4b523f1b6d9b00a4779fc9f8f105a9e36f062ceb7d511b632905782042ad30acb6dd07bfced4ecd5f3aa58321e8ace63f48f988ed8461bfdcd8b0e902187a10e228ddc6998329b7faa64875fe80da36406ea8d87e3e57bb048323e9cb66c0b343b60c4e709fb978b878e37d0c362edfc06c8cdc774c8b29d94e48eaa06cca60f5055154f42065ea5a1bea05463826be2684eb92df92c100027aabaae57ca554207bc7cbcb5636375fa1d82434d466724d92377f53b980695dd49d26d0ce12205a5776972652d666f726d61742d7465737400af1349b9f5f9a1a6a0404dea36dcc9499bcb25c9adc112b7cc9a93cae41f32628080f9c0c1c48203";
    ctx.count("pinned_encoding_checks", 1);
    if hex::encode(&bytes) != SNAP {
        ctx.violation(0, "pinned-signed-entry-encoding-changed", json!({"got": hex::encode(&bytes)}));
    }
    // the independent hand-written encoder agrees on the same entry
    let mut raw = RawEntry { author_sig: [0; 64], namespace_sig: [0; 64], id: vec![], len: 0, hash: *iroh_blobs::Hash::EMPTY.as_bytes(), ts: 1_700_000_000_000_000 };
    raw.id.extend_from_slice(namespace.id().as_bytes());
    raw.id.extend_from_slice(author.id().as_bytes());
    raw.id.extend_from_slice(b"wire-format-test");
    raw.sign(&namespace, &author);
    if hex::encode(raw.to_bytes()) != SNAP {
        ctx.violation(0, "signed-content-or-field-layout-changed", json!({"hand_encoded": hex::encode(raw.to_bytes())}));
    }
    // an entry WITH content: the signed bytes are id ++ len(be) ++ hash ++ timestamp(be); the crate's
    // signature must equal the one made over the hand-written layout (ed25519 is deterministic), and
    // the hand-signed entry must verify
    {
        let hash = iroh_blobs::Hash::new(b"pinned content");
        let len = 14u64 + (1u64 << 33); // a length whose big-endian and little-endian bytes differ everywhere
        let ts = 1_700_000_000_123_456u64;
        let real = SignedEntry::from_parts(&namespace, &author, b"pinned/key", iroh_docs::Record::new(hash, len, ts));
        let mut raw = RawEntry { author_sig: [0; 64], namespace_sig: [0; 64], id: vec![], len, hash: *hash.as_bytes(), ts };
        raw.id.extend_from_slice(namespace.id().as_bytes());
        raw.id.extend_from_slice(author.id().as_bytes());
        raw.id.extend_from_slice(b"pinned/key");
        raw.sign(&namespace, &author);
        ctx.count("pinned_encoding_checks", 1);
        if postcard::to_stdvec(&real).unwrap() != raw.to_bytes() {
            ctx.violation(0, "signed-content-or-field-layout-changed", json!({"entry": "non-empty", "crate": hex::encode(postcard::to_stdvec(&real).unwrap()), "hand_encoded": hex::encode(raw.to_bytes())}));
        }
        match raw.into_entry() {
            Ok(e) if e.verify(&()).is_ok() => {}
            _ => ctx.violation(0, "reference-signed-entry-does-not-verify", json!({"entry": "non-empty"})),
        }
        if real.entry().to_vec() != raw.signed_bytes() {
            ctx.violation(0, "canonical-signing-bytes-changed", json!({"crate": hex::encode(real.entry().to_vec()), "reference": hex::encode(raw.signed_bytes())}));
        }
    }
    if hex::encode(postcard::to_stdvec(&author).unwrap()) != format!("20{}", "a1".repeat(32)) {
        ctx.violation(0, "pinned-author-encoding-changed", json!({}));
    }
    if hex::encode(postcard::to_stdvec(&namespace).unwrap()) != format!("20{}", "b2".repeat(32)) {
        ctx.violation(0, "pinned-namespace-secret-encoding-changed", json!({}));
    }
    if hex::encode(postcard::to_stdvec(&author.id()).unwrap()) != hex::encode(author.id().as_bytes())
        || hex::encode(postcard::to_stdvec(&namespace.id()).unwrap()) != hex::encode(namespace.id().as_bytes())
    {
        ctx.violation(0, "pinned-id-encoding-changed", json!({}));
    }
    // ticket layout
    let node = PublicKey::from_str("ae58ff8833241ac82d6ff7611046ed67b5072d142c588d0063e942d9a75502b6").unwrap();
    let nsid = iroh_docs::NamespaceId::from(node.as_bytes());
    let t = DocTicket::new(Capability::Read(nsid), vec![EndpointAddr::new(node)]);
    let mut want = vec![0u8, 1u8];
    want.extend_from_slice(node.as_bytes());
    want.push(1);
    want.extend_from_slice(node.as_bytes());
    want.push(0);
    if t.encode_bytes() != want {
        ctx.violation(0, "pinned-ticket-layout-changed", json!({"got": hex::encode(t.encode_bytes())}));
    }
    let tw = DocTicket::new(Capability::Write(namespace.clone()), vec![EndpointAddr::new(node)]);
    let mut want = vec![0u8, 0u8, 0x20]; // the secret is length-prefixed (pinned by the suite's snapshot)
    want.extend_from_slice(&namespace.to_bytes());
    want.push(1);
    want.extend_from_slice(node.as_bytes());
    want.push(0);
    if tw.encode_bytes() != want {
        ctx.violation(0, "pinned-ticket-layout-changed", json!({"got": hex::encode(tw.encode_bytes())}));
    }
}

fn decode_all(ctx: &mut Ctx, case: u64, chunks: &[&[u8]]) -> Option<Result<Vec<Vec<u8>>, String>> {
    let mut buf = BytesMut::new();
    let mut out = vec![];
    for c in chunks {
        buf.extend_from_slice(c);
        loop {
            let snapshot = buf.to_vec();
            let r = guard(ctx, case, "frame-decoder", &snapshot, || decode_frame(&mut buf))?;
            match r {
                Ok(Some(m)) => out.push(m),
                Ok(None) => break,
                Err(e) => return Some(Err(format!("{e:#}"))),
            }
        }
    }
    if !buf.is_empty() {
        return Some(Err(format!("{} bytes left undecoded", buf.len())));
    }
    Some(Ok(out))
}

fn frames_case(ctx: &mut Ctx, case: u64, rng: &mut Rng, scratch: &Scratch) {
    let (msgs, _ns) = harvest(rng, scratch);
    // encode through the crate
    let mut stream = vec![];
    for m in &msgs {
        let mut b = BytesMut::new();
        match guard(ctx, case, "frame-encoder", m, || encode_frame(m, &mut b)) {
            Some(Ok(())) => {}
            Some(Err(e)) => {
                ctx.violation(case, "real-message-not-encodable", json!({"err": format!("{e:#}")}));
                return;
            }
            None => return,
        }
        if b.to_vec() != frame(m) {
            ctx.violation(case, "frame-layout-differs-from-length-prefixed-postcard", json!({"msg_len": m.len(), "frame_len": b.len()}));
            return;
        }
        stream.extend_from_slice(&b);
    }
    ctx.nontrivial(h64(&stream));
    ctx.count("messages_round_tripped", msgs.len() as u64);
    if ctx.want_sample() {
        ctx.sample(json!({"case": case, "kind": "frames", "messages": msgs.len(), "stream_bytes": stream.len(), "first_message_hex": hex::encode(&msgs[0][..msgs[0].len().min(80)])}));
    }
    // every two-chunk split (short streams) or 64 random split sets
    let mut splits: Vec<Vec<usize>> = vec![vec![]];
    if stream.len() <= 600 {
        for i in 1..stream.len() {
            splits.push(vec![i]);
        }
    }
    for _ in 0..64 {
        let k = rng.range(1, 6);
        let mut s: Vec<usize> = (0..k).map(|_| rng.below(stream.len() + 1)).collect();
        s.sort();
        splits.push(s);
    }
    // byte-by-byte
    splits.push((1..stream.len().min(400)).collect());
    for sp in &splits {
        let mut chunks = vec![];
        let mut last = 0;
        for &i in sp {
            chunks.push(&stream[last..i]);
            last = i;
        }
        chunks.push(&stream[last..]);
        ctx.count("chunkings", 1);
        match decode_all(ctx, case, &chunks) {
            None => return,
            Some(Ok(got)) if got == msgs => {}
            Some(other) => {
                ctx.violation(case, "chunked-stream-decodes-differently", json!({"splits": sp, "result": format!("{:?}", other.map(|v| v.len()))}));
                return;
            }
        }
    }
    // truncation: every proper prefix at EOF is an error or yields only a prefix of the messages
    let step = if stream.len() > 800 { stream.len() / 400 } else { 1 };
    let mut cut = 0;
    while cut < stream.len() {
        let mut buf = BytesMut::from(&stream[..cut]);
        let mut got = vec![];
        let mut errored = false;
        loop {
            let snap = buf.to_vec();
            let Some(r) = guard(ctx, case, "frame-decoder-eof", &snap, || decode_frame_eof(&mut buf)) else { return };
            match r {
                Ok(Some(m)) => got.push(m),
                Ok(None) => break,
                Err(_) => {
                    errored = true;
                    break;
                }
            }
            if got.len() > msgs.len() {
                break;
            }
        }
        ctx.count("truncations", 1);
        // complete frames before the cut
        let mut complete = 0;
        let mut off = 0;
        for m in &msgs {
            off += 4 + m.len();
            if off <= cut {
                complete += 1;
            }
        }
        let at_boundary = { let mut o = 0; let mut b = cut == 0; for m in &msgs { o += 4 + m.len(); if o == cut { b = true; } } b };
        if got.len() > complete || got[..] != msgs[..got.len()] {
            ctx.violation(case, "truncated-stream-yields-bogus-message", json!({"cut": cut, "got": got.len(), "complete_frames": complete}));
            return;
        }
        if !at_boundary && !errored {
            ctx.violation(case, "truncated-frame-not-reported-at-eof", json!({"cut": cut, "stream": stream.len()}));
            return;
        }
        cut += step;
    }
    // a frame that declares fewer bytes than its message needs is a truncated frame even when more
    // bytes (the next frames) are already buffered behind it: an error, never a message
    {
        let mut off = 0;
        for (mi, m) in msgs.iter().enumerate() {
            for short in [m.len() - 1, m.len() / 2, 1] {
                if short >= m.len() {
                    continue;
                }
                let mut s2 = stream[off..].to_vec();
                s2[..4].copy_from_slice(&(short as u32).to_be_bytes());
                let mut buf = BytesMut::from(&s2[..]);
                let snap = buf.to_vec();
                let Some(r) = guard(ctx, case, "frame-decoder", &snap[..snap.len().min(64)], || decode_frame(&mut buf)) else { return };
                ctx.count("shortened_length_prefixes", 1);
                if let Ok(Some(_)) = r {
                    ctx.violation(case, "frame-with-too-short-length-prefix-yields-message", json!({"message": mi, "declared": short, "needed": m.len(), "buffered_behind": s2.len() - 4 - short}));
                    return;
                }
            }
            off += 4 + m.len();
        }
    }
    // oversized / boundary length prefixes
    for (len, must_err) in [(1u32 << 30, false), ((1u32 << 30) + 1, true), (u32::MAX, true)] {
        let mut buf = BytesMut::from(&len.to_be_bytes()[..]);
        buf.extend_from_slice(&[1, 2, 3]);
        let snap = buf.to_vec();
        let Some(r) = guard(ctx, case, "frame-decoder", &snap, || decode_frame(&mut buf)) else { return };
        ctx.count("length_prefix_checks", 1);
        match r {
            Ok(Some(_)) => {
                ctx.violation(case, "oversized-frame-yields-message", json!({"len": len}));
                return;
            }
            Ok(None) if must_err => {
                ctx.violation(case, "oversized-frame-not-reported-as-error", json!({"len": len}));
                return;
            }
            Err(_) if !must_err => {
                ctx.violation(case, "maximal-frame-length-rejected", json!({"len": len}));
                return;
            }
            _ => {}
        }
    }
    // single-byte corruption at every offset (bounded), and random strings
    let lim = stream.len().min(if ctx.is_quick() { 300 } else { 1500 });
    for i in 0..lim {
        let mut s = stream.clone();
        s[i] ^= 1 << rng.below(8);
        let mut buf = BytesMut::from(&s[..]);
        for _ in 0..msgs.len() + 1 {
            let snap = buf.to_vec();
            let Some(r) = guard(ctx, case, "frame-decoder", &snap, || decode_frame(&mut buf)) else { return };
            ctx.count("corrupted_streams", 1);
            match r {
                Ok(Some(m)) => {
                    // a decoded message must be usable: decode its entries and touch the accessors
                    if !touch_frame(ctx, case, &m) {
                        return;
                    }
                }
                _ => break,
            }
        }
    }
}

/// A frame message that decoded: its protocol message must decode with the mirror and every
/// accessor of every entry must be callable.
fn touch_frame(ctx: &mut Ctx, case: u64, m: &[u8]) -> bool {
    let body = match m.first() {
        Some(0) if m.len() > 33 => &m[33..],
        Some(1) => &m[1..],
        _ => return true,
    };
    touch_message(ctx, case, body)
}

fn touch_message(ctx: &mut Ctx, case: u64, body: &[u8]) -> bool {
    let Some(r) = guard(ctx, case, "protocol-message-decoder", body, || postcard::from_bytes::<ProtocolMessage>(body)) else { return false };
    if let Ok(pm) = r {
        // re-encode and pull entries out through the mirror
        let bytes = postcard::to_stdvec(&pm).unwrap();
        if let Some(raw) = wire::RawMessage::decode(&bytes) {
            for p in raw.parts {
                if let wire::RawPart::Item { values, .. } = p {
                    for (e, _) in values {
                        if !touch_entry_bytes(ctx, case, &e.to_bytes()) {
                            return false;
                        }
                    }
                }
            }
        }
        // Debug formatting walks range bounds and entries
        if guard(ctx, case, "protocol-message-debug", body, || format!("{pm:?}").len()).is_none() {
            return false;
        }
    }
    true
}

fn touch_entry_bytes(ctx: &mut Ctx, case: u64, b: &[u8]) -> bool {
    let Some(r) = guard(ctx, case, "signed-entry-decoder", b, || postcard::from_bytes::<SignedEntry>(b)) else { return false };
    ctx.count("entries_decoded_or_refused", 1);
    if let Ok(e) = r {
        let ok = guard(ctx, case, "signed-entry-accessors", b, || {
            let _ = e.namespace();
            let _ = e.author();
            let _ = e.key().len();
            let _ = e.timestamp();
            let _ = e.content_hash();
            let _ = e.content_len();
            let _ = e.id().as_byte_tuple();
            let _ = e.id().to_byte_tuple();
            let _ = e.id().key_bytes();
            let _ = e.validate_empty();
            let _ = e.verify(&());
            let _ = format!("{e:?}");
            let _ = e.entry().to_vec();
            let _ = e.author_bytes();
        });
        return ok.is_some();
    }
    true
}

fn entry_case(ctx: &mut Ctx, case: u64, rng: &mut Rng) {
    let uni = Universe::new(rng, 1);
    let es = uni.entries(rng, 4, 4);
    for e in &es {
        if let Err(m) = wire::self_check(e) {
            ctx.violation(case, "signed-entry-encoding-differs-from-hand-written-encoder", json!({"what": m}));
            return;
        }
        let b = postcard::to_stdvec(e).unwrap();
        ctx.nontrivial(h64(&b));
        ctx.eval();
        // every truncation, single-byte corruption, identifier lengths 0..70
        for cut in 0..b.len() {
            if !touch_entry_bytes(ctx, case, &b[..cut]) {
                return;
            }
        }
        for i in 0..b.len() {
            let mut c = b.clone();
            c[i] ^= 1 << rng.below(8);
            if !touch_entry_bytes(ctx, case, &c) {
                return;
            }
        }
        let raw = RawEntry::of(e);
        for l in 0..70 {
            let mut r2 = raw.clone();
            r2.id.resize(l, 0x61);
            if !touch_entry_bytes(ctx, case, &r2.to_bytes()) {
                return;
            }
        }
    }
    for _ in 0..200 {
        let n = rng.below(260);
        let b = rng.bytes(n);
        if !touch_entry_bytes(ctx, case, &b) {
            return;
        }
    }
    if ctx.want_sample() {
        ctx.sample(json!({"case": case, "kind": "entries", "entry_hex": hex::encode(postcard::to_stdvec(&es[0]).unwrap())}));
    }
}

fn message_case(ctx: &mut Ctx, case: u64, rng: &mut Rng, scratch: &Scratch) {
    let (msgs, _) = harvest(rng, scratch);
    for m in &msgs {
        let body: &[u8] = match m[0] {
            0 => &m[33..],
            1 => &m[1..],
            _ => continue,
        };
        // round trip through the crate's type
        match postcard::from_bytes::<ProtocolMessage>(body) {
            Ok(pm) => {
                if postcard::to_stdvec(&pm).unwrap() != body {
                    ctx.violation(case, "protocol-message-round-trip-differs", json!({}));
                    return;
                }
            }
            Err(e) => {
                ctx.violation(case, "real-protocol-message-not-decodable", json!({"err": format!("{e}")}));
                return;
            }
        }
        ctx.nontrivial(h64(body));
        ctx.eval();
        let lim = body.len().min(if ctx.is_quick() { 200 } else { 1200 });
        for i in 0..lim {
            let mut c = body.to_vec();
            c[i] ^= 1 << rng.below(8);
            ctx.count("corrupted_messages", 1);
            if !touch_message(ctx, case, &c) {
                return;
            }
            if !touch_message(ctx, case, &body[..i]) {
                return;
            }
        }
        // range bounds shorter than 64 bytes
        let mut v = vec![];
        varint(1, &mut v);
        varint(0, &mut v);
        let l = rng.below(64);
        varint(l as u64, &mut v);
        v.extend(std::iter::repeat(7u8).take(l));
        varint(64, &mut v);
        v.extend(std::iter::repeat(0u8).take(64));
        v.extend_from_slice(&[0u8; 32]);
        if !touch_message(ctx, case, &v) {
            return;
        }
    }
    for _ in 0..100 {
        let n = rng.below(300);
        let b = rng.bytes(n);
        ctx.count("random_messages", 1);
        if !touch_message(ctx, case, &b) {
            return;
        }
    }
}

fn heads_ticket_case(ctx: &mut Ctx, case: u64, rng: &mut Rng) {
    // heads
    let mut h = AuthorHeads::default();
    // half of the sets draw their timestamps from a small pool, so that authors share a timestamp
    // (what a coarse clock or a bulk import produces), including 0 and the largest value
    let pool: Vec<u64> = if rng.chance(1, 2) { vec![0, 1, 1_700_000_000_000_000, u64::MAX, rng.next_u64() >> rng.below(60)] } else { vec![] };
    for _ in 0..rng.below(12) {
        let t = if pool.is_empty() { rng.next_u64() >> rng.below(60) } else { *rng.pick(&pool) };
        h.insert(AuthorId::from(&rng.fill32()), t);
    }
    if !pool.is_empty() && h.len() >= 2 {
        ctx.count("head_sets_with_shared_timestamps", 1);
    }
    let enc = h.encode(None).unwrap();
    ctx.nontrivial(h64(&enc));
            ctx.eval();
    match guard(ctx, case, "author-heads-decoder", &enc, || AuthorHeads::decode(&enc)) {
        Some(Ok(d)) if d == h => {}
        Some(other) => {
            ctx.violation(case, "author-heads-round-trip-differs", json!({"got": format!("{:?}", other.map(|d| d.len()))}));
            return;
        }
        None => return,
    }
    for i in 0..enc.len().min(200) {
        let mut c = enc.clone();
        c[i] ^= 1 << rng.below(8);
        if guard(ctx, case, "author-heads-decoder", &c, || AuthorHeads::decode(&c).map(|h| h.len())).is_none() {
            return;
        }
        if guard(ctx, case, "author-heads-decoder", &enc[..i], || AuthorHeads::decode(&enc[..i]).map(|h| h.len())).is_none() {
            return;
        }
    }
    for _ in 0..100 {
        let n = rng.below(120);
        let b = rng.bytes(n);
        ctx.count("random_head_reports", 1);
        if guard(ctx, case, "author-heads-decoder", &b, || AuthorHeads::decode(&b).map(|h| h.len())).is_none() {
            return;
        }
    }
    // tickets with at least one node
    let n_nodes = rng.range(1, 4);
    let mut nodes = vec![];
    for i in 0..n_nodes {
        let pk = iroh::SecretKey::from_bytes(&rng.fill32()).public();
        let mut a = EndpointAddr::new(pk);
        if rng.chance(1, 2) {
            a = a.with_ip_addr(std::net::SocketAddr::from(([10, 0, i as u8, rng.below(250) as u8], 1000 + rng.below(5000) as u16)));
        }
        if rng.chance(1, 3) {
            a = a.with_ip_addr(std::net::SocketAddr::from((std::net::Ipv6Addr::LOCALHOST, 4433)));
        }
        if rng.chance(1, 3) {
            if let Ok(u) = "https://relay.example.org./".parse() {
                a = a.with_relay_url(u);
            }
        }
        nodes.push(a);
    }
    let cap = if rng.chance(1, 2) { Capability::Write(NamespaceSecret::from_bytes(&rng.fill32())) } else { Capability::Read(iroh_docs::NamespaceId::from(&rng.fill32())) };
    let t = DocTicket::new(cap.clone(), nodes.clone());
    let bytes = t.encode_bytes();
    let text = t.to_string();
    ctx.count("tickets_round_tripped", 1);
    let same = |d: &DocTicket| d.capability.raw() == cap.raw() && d.nodes == nodes;
    match guard(ctx, case, "ticket-decoder", &bytes, || DocTicket::decode_bytes(&bytes)) {
        Some(Ok(d)) if same(&d) => {}
        Some(other) => {
            ctx.violation(case, "ticket-bytes-round-trip-differs", json!({"ok": other.is_ok()}));
            return;
        }
        None => return,
    }
    match guard(ctx, case, "ticket-string-decoder", text.as_bytes(), || DocTicket::from_str(&text)) {
        Some(Ok(d)) if same(&d) => {}
        Some(other) => {
            ctx.violation(case, "ticket-string-round-trip-differs", json!({"ok": other.is_ok(), "text": text}));
            return;
        }
        None => return,
    }
    // no nodes: must be refused
    let empty = DocTicket::new(cap.clone(), vec![]).encode_bytes();
    if let Some(Ok(_)) = guard(ctx, case, "ticket-decoder", &empty, || DocTicket::decode_bytes(&empty)) {
        ctx.violation(case, "ticket-without-nodes-accepted", json!({}));
        return;
    }
    for i in 0..bytes.len().min(150) {
        let mut c = bytes.clone();
        c[i] ^= 1 << rng.below(8);
        if guard(ctx, case, "ticket-decoder", &c, || DocTicket::decode_bytes(&c).map(|t| t.nodes.len())).is_none() {
            return;
        }
        if guard(ctx, case, "ticket-decoder", &bytes[..i], || DocTicket::decode_bytes(&bytes[..i]).map(|t| t.nodes.len())).is_none() {
            return;
        }
        let mut s = text.clone().into_bytes();
        if i < s.len() {
            s[i] = b"abcdefghijklmnopqrstuvwxyz234567=!A "[rng.below(36)];
            let s = String::from_utf8_lossy(&s).to_string();
            if guard(ctx, case, "ticket-string-decoder", s.as_bytes(), || DocTicket::from_str(&s).map(|t| t.nodes.len())).is_none() {
                return;
            }
        }
    }
    for _ in 0..60 {
        let n = rng.below(150);
        let b = rng.bytes(n);
        ctx.count("random_tickets", 1);
        if guard(ctx, case, "ticket-decoder", &b, || DocTicket::decode_bytes(&b).map(|t| t.nodes.len())).is_none() {
            return;
        }
        let s: String = b.iter().map(|x| b"abcdefghijklmnopqrstuvwxyz234567doc"[(*x as usize) % 35] as char).collect();
        if guard(ctx, case, "ticket-string-decoder", s.as_bytes(), || DocTicket::from_str(&format!("doc{s}")).map(|t| t.nodes.len())).is_none() {
            return;
        }
    }
    for i in 0..80 {
        let t = if i % 2 == 0 { hostile_text(rng) } else { bent_text(rng, &text) };
        ctx.count("pasted_texts", 1);
        if guard(ctx, case, "ticket-string-decoder", t.as_bytes(), || DocTicket::from_str(&t).map(|t| t.nodes.len())).is_none() {
            return;
        }
    }
    if ctx.want_sample() {
        ctx.sample(json!({"case": case, "kind": "ticket", "text": text, "nodes": n_nodes}));
    }
}

/// Text a person might paste: short strings over ASCII letters, white space and characters that take
/// two, three and four bytes in UTF-8 (added after seeded change agent-C09-9: a parser that slices a
/// string at a byte offset panics when the offset falls inside such a character).
fn hostile_text(rng: &mut Rng) -> String {
    const POOL: [&str; 18] = ["a", "d", "o", "c", "D", "O", "C", " ", "\t", "\n", "é", "€", "😀", "\u{0}", "ß", "ǆ", "\u{feff}", ":"];
    let n = rng.below(10);
    (0..n).map(|_| *rng.pick(&POOL)).collect()
}

/// A valid text with one of its first characters replaced by a multi-byte one, upper-cased, or padded.
fn bent_text(rng: &mut Rng, valid: &str) -> String {
    match rng.below(4) {
        0 => {
            let at = rng.below(valid.chars().count().min(10).max(1));
            valid.chars().enumerate().map(|(i, c)| if i == at { *rng.pick(&['é', '€', '😀']) } else { c }).collect()
        }
        1 => valid.to_uppercase(),
        2 => format!("{}{valid}{}", rng.pick(&[" ", "\n", "\u{feff}", ""]), rng.pick(&[" ", "\n", ""])),
        _ => {
            let at = rng.below(valid.chars().count().min(10) + 1);
            let mut out: String = valid.chars().take(at).collect();
            out.push(*rng.pick(&['é', '€', '😀']));
            out.extend(valid.chars().skip(at));
            out
        }
    }
}

fn misc_case(ctx: &mut Ctx, case: u64, rng: &mut Rng) {
    // capabilities
    for _ in 0..40 {
        let kind = rng.below(5) as u8;
        let b = rng.fill32();
        ctx.count("capabilities", 1);
        let Some(r) = guard(ctx, case, "capability-from-raw", &b, || Capability::from_raw(kind, &b)) else { return };
        if let Ok(c) = r {
            let (k2, b2) = c.raw();
            match Capability::from_raw(k2, &b2) {
                Ok(c2) if c2.raw() == c.raw() && c2.id() == c.id() => {}
                _ => {
                    ctx.violation(case, "capability-raw-round-trip-differs", json!({"kind": kind}));
                    return;
                }
            }
            let enc = postcard::to_stdvec(&c).unwrap();
            match guard(ctx, case, "capability-decoder", &enc, || postcard::from_bytes::<Capability>(&enc)) {
                Some(Ok(c3)) if c3.raw() == c.raw() => {}
                Some(_) => {
                    ctx.violation(case, "capability-serde-round-trip-differs", json!({}));
                    return;
                }
                None => return,
            }
            ctx.nontrivial(h64(&enc));
        }
        let n = rng.below(40);
        let junk = rng.bytes(n);
        if guard(ctx, case, "capability-decoder", &junk, || postcard::from_bytes::<Capability>(&junk).is_ok()).is_none() {
            return;
        }
    }
    // filters, policies, queries from arbitrary bytes and strings
    for _ in 0..100 {
        let n = rng.below(60);
        let b = rng.bytes(n);
        ctx.count("random_policies_filters_queries", 1);
        if guard(ctx, case, "download-policy-decoder", &b, || postcard::from_bytes::<DownloadPolicy>(&b).is_ok()).is_none() {
            return;
        }
        if guard(ctx, case, "query-decoder", &b, || postcard::from_bytes::<Query>(&b).is_ok()).is_none() {
            return;
        }
        if guard(ctx, case, "filter-decoder", &b, || postcard::from_bytes::<FilterKind>(&b).is_ok()).is_none() {
            return;
        }
        let s = String::from_utf8_lossy(&b).to_string();
        if guard(ctx, case, "filter-parser", &b, || FilterKind::from_str(&s).is_ok()).is_none() {
            return;
        }
        let s2 = format!("{}:{}:{}", rng.pick(&["prefix", "exact", "x"]), rng.pick(&["hex", "utf8", "y"]), hex::encode(&b[..b.len().min(9)]));
        if guard(ctx, case, "filter-parser", s2.as_bytes(), || FilterKind::from_str(&s2).is_ok()).is_none() {
            return;
        }
    }
    // textual forms of keys and ids: Display -> FromStr round trip, arbitrary strings never panic
    {
        use iroh_docs::{AuthorId as A, NamespaceId as N};
        let a = Author::from_bytes(&rng.fill32());
        let n = NamespaceSecret::from_bytes(&rng.fill32());
        ctx.count("key_text_round_trips", 1);
        let ok = guard(ctx, case, "key-text-parser", &[], || {
            A::from_str(&a.id().to_string()).ok() == Some(a.id())
                && N::from_str(&n.id().to_string()).ok() == Some(n.id())
                && Author::from_str(&a.to_string()).map(|x| x.to_bytes()).ok() == Some(a.to_bytes())
                && NamespaceSecret::from_str(&n.to_string()).map(|x| x.to_bytes()).ok() == Some(n.to_bytes())
                && !a.id().fmt_short().is_empty()
                && !n.id().fmt_short().is_empty()
        });
        match ok {
            None => return,
            Some(false) => {
                ctx.violation(case, "key-text-round-trip-differs", json!({"author": a.id().to_string(), "namespace": n.id().to_string()}));
                return;
            }
            Some(true) => {}
        }
        for i in 0..60 {
            let valid = [a.id().to_string(), n.id().to_string(), a.to_string(), n.to_string(), "prefix:utf8:ab".to_string(), "exact:hex:6162".to_string()];
            let junk = if i % 2 == 0 {
                hostile_text(rng)
            } else {
                let v = rng.pick(&valid).clone();
                bent_text(rng, &v)
            };
            ctx.count("pasted_texts", 1);
            if guard(ctx, case, "key-text-parser", junk.as_bytes(), || {
                let _ = A::from_str(&junk);
                let _ = N::from_str(&junk);
                let _ = Author::from_str(&junk);
                let _ = NamespaceSecret::from_str(&junk);
                let _ = FilterKind::from_str(&junk);
            })
            .is_none()
            {
                return;
            }
        }
        for _ in 0..40 {
            let n = rng.below(80);
            let junk: String = (0..n).map(|_| b"0123456789abcdefghijklmnopqrstuvwxyzABCDEF=+/ -_"[rng.below(48)] as char).collect();
            if guard(ctx, case, "key-text-parser", junk.as_bytes(), || {
                let _ = A::from_str(&junk);
                let _ = N::from_str(&junk);
                let _ = Author::from_str(&junk);
                let _ = NamespaceSecret::from_str(&junk);
            })
            .is_none()
            {
                return;
            }
        }
    }
    // textual form of filters: every filter survives Display -> FromStr, whatever bytes it holds
    // (delimiters, empty, non-UTF-8)
    for _ in 0..30 {
        let n = rng.below(7);
        let mut bytes: Vec<u8> = (0..n).map(|_| *rng.pick(&[b':', b':', b'a', b'/', b' ', 0x00, 0xFF, 0xC3, b'%', b'0'])).collect();
        if rng.chance(1, 4) {
            bytes = format!("user:{}:", rng.below(50)).into_bytes();
        }
        let f = if rng.chance(1, 2) { FilterKind::Prefix(bytes.clone().into()) } else { FilterKind::Exact(bytes.clone().into()) };
        let text = f.to_string();
        ctx.count("filter_text_round_trips", 1);
        match guard(ctx, case, "filter-parser", text.as_bytes(), || FilterKind::from_str(&text)) {
            None => return,
            Some(Ok(g)) if g == f => {}
            Some(other) => {
                ctx.violation(case, "filter-text-round-trip-differs", json!({"filter": format!("{f:?}"), "text": text, "parsed": format!("{other:?}")}));
                return;
            }
        }
    }
    // policy round trip
    let p = crate::props::c15::real(&crate::props::c15::gen_policy(rng));
    let enc = postcard::to_stdvec(&p).unwrap();
    match postcard::from_bytes::<DownloadPolicy>(&enc) {
        Ok(q) if q == p => {}
        _ => ctx.violation(case, "download-policy-round-trip-differs", json!({})),
    }
}
