//! C03 — only authentic, well-formed, in-namespace, non-future entries are accepted.

use iroh_docs::{
    actor::{OpenOpts, SyncHandle},
    store::Store,
    Capability, ContentStatus, Event, NamespaceId, SignedEntry, SyncOutcome,
};
use serde_json::json;

use crate::{
    act,
    ctx::Ctx,
    gen::{namespace, Universe},
    model::{Model, E},
    rng::{h64, Rng},
    wire::{RawEntry, RawMessage, RawPart},
};

const FROM: [u8; 32] = [0x42; 32];
const FUTURE: u64 = 600_000_000; // ten minutes in microseconds

#[derive(Clone, Debug)]
struct Crafted {
    raw: RawEntry,
    kind: String,
    acceptable: bool, // by authenticity / namespace / time / emptiness (not yet: superseded)
}

fn tampered(rng: &mut Rng, uni: &Universe, foreign: &Universe, valid: &[SignedEntry], now: u64) -> Crafted {
    let base = rng.pick(valid).clone();
    let mut raw = RawEntry::of(&base);
    let a_idx = uni.authors.iter().position(|a| a.id() == base.author()).unwrap();
    let kind;
    let mut acceptable = false;
    match rng.below(29) {
        0 => {
            let i = rng.below(64);
            raw.author_sig[i] ^= 1 << rng.below(8);
            kind = "author-signature-bit-flipped";
        }
        1 => {
            let i = rng.below(64);
            raw.namespace_sig[i] ^= 1 << rng.below(8);
            kind = "namespace-signature-bit-flipped";
        }
        2 => {
            let i = rng.below(32);
            raw.id[i] ^= 1 << rng.below(8);
            kind = "namespace-id-bit-flipped";
        }
        3 => {
            let i = 32 + rng.below(32);
            raw.id[i] ^= 1 << rng.below(8);
            kind = "author-id-bit-flipped";
        }
        4 => {
            if raw.id.len() > 64 {
                let i = 64 + rng.below(raw.id.len() - 64);
                raw.id[i] ^= 1 << rng.below(8);
            } else {
                raw.id.push(0x61);
            }
            kind = "key-altered";
        }
        5 => {
            raw.len = raw.len.wrapping_add(1 + rng.below(3) as u64);
            if raw.len == 0 {
                raw.len = 7;
            }
            kind = "length-altered";
        }
        6 => {
            let i = rng.below(32);
            raw.hash[i] ^= 1 << rng.below(8);
            kind = "hash-bit-flipped";
        }
        7 => {
            raw.ts ^= 1 << rng.below(20);
            kind = "timestamp-altered";
        }
        8 => {
            std::mem::swap(&mut raw.author_sig, &mut raw.namespace_sig);
            kind = "signatures-swapped";
        }
        9 => {
            let other = RawEntry::of(rng.pick(valid));
            if other.signed_bytes() == raw.signed_bytes() {
                raw.author_sig[0] ^= 1;
            } else {
                raw.author_sig = other.author_sig;
                raw.namespace_sig = other.namespace_sig;
            }
            kind = "signatures-from-another-entry";
        }
        10 => {
            // validly signed for another document
            raw.id[..32].copy_from_slice(foreign.ns.id().as_bytes());
            raw.sign(&foreign.ns, &uni.authors[a_idx]);
            kind = "foreign-namespace-validly-signed";
        }
        11 => {
            // another valid author key without re-signing
            let other = &uni.authors[(a_idx + 1) % uni.authors.len()];
            raw.id[32..64].copy_from_slice(other.id().as_bytes());
            kind = "author-replaced-not-resigned";
        }
        12 => {
            // a byte string that is not a curve point as author id
            raw.id[32..64].copy_from_slice(&non_curve_point());
            kind = "author-id-not-a-curve-point";
        }
        13 => {
            raw.id[..32].copy_from_slice(&non_curve_point());
            kind = "namespace-id-not-a-curve-point";
        }
        14 => {
            // malformed emptiness, correctly signed: only the emptiness rule can reject it
            raw.len = 0;
            if raw.hash == *iroh_blobs::Hash::EMPTY.as_bytes() {
                raw.hash = *iroh_blobs::Hash::new(b"x").as_bytes();
            }
            raw.sign(&uni.ns, &uni.authors[a_idx]);
            kind = "length-zero-with-content-hash-validly-signed";
        }
        15 => {
            raw.hash = *iroh_blobs::Hash::EMPTY.as_bytes();
            raw.len = 1 + rng.below(5) as u64;
            raw.sign(&uni.ns, &uni.authors[a_idx]);
            kind = "empty-hash-with-length-validly-signed";
        }
        16 | 17 => {
            // around the future bound, correctly signed
            if rng.chance(1, 3) {
                // the far end of the type's range: half the range ahead of the clock and beyond,
                // where a signed distance or a wrapping sum changes sign
                let half = 1u64 << 63;
                raw.ts = *rng.pick(&[u64::MAX, u64::MAX - 1, half - 1, half, half + 1, now + half - 1, now + half, now + half + 1, now + (1u64 << 62), u64::MAX - now, u64::MAX - FUTURE, u64::MAX - FUTURE + 1]);
                raw.sign(&uni.ns, &uni.authors[a_idx]);
                acceptable = false;
                kind = "timestamp-at-the-far-end-of-the-range";
            } else {
                let d = *rng.pick(&[FUTURE - 1, FUTURE, FUTURE + 1, FUTURE + 60_000_000, FUTURE - 1000]);
                raw.ts = now + d;
                raw.sign(&uni.ns, &uni.authors[a_idx]);
                acceptable = d <= FUTURE;
                kind = if acceptable { "timestamp-at-or-below-future-bound" } else { "timestamp-beyond-future-bound" };
            }
        }
        18 => {
            // signed by the right author but a different namespace secret, id left alone
            raw.sign(&foreign.ns, &uni.authors[a_idx]);
            kind = "namespace-signature-by-wrong-key";
        }
        19 => {
            // a holder of the namespace secret forges another author's entry: content altered,
            // namespace signature valid, and that same signature copied into the author slot
            raw.hash[0] ^= 0x55;
            if raw.len == 0 {
                raw.len = 3;
            }
            let m = raw.signed_bytes();
            raw.namespace_sig = uni.ns.sign(&m).to_bytes();
            raw.author_sig = raw.namespace_sig;
            kind = "author-signature-is-a-copy-of-the-valid-namespace-signature";
        }
        20 => {
            // the mirror image: valid author signature copied into the namespace slot
            raw.ts ^= 2;
            let m = raw.signed_bytes();
            raw.author_sig = uni.authors[a_idx].sign(&m).to_bytes();
            raw.namespace_sig = raw.author_sig;
            kind = "namespace-signature-is-a-copy-of-the-valid-author-signature";
        }
        21 => {
            // valid namespace signature, author signature by a different (known) author key
            raw.key_tweak();
            let m = raw.signed_bytes();
            raw.namespace_sig = uni.ns.sign(&m).to_bytes();
            raw.author_sig = uni.authors[(a_idx + 1) % uni.authors.len()].sign(&m).to_bytes();
            kind = "author-signature-by-another-author";
        }
        24 | 25 => {
            // the identifier names ANOTHER document, but both signatures are made with the keys this
            // replica trusts (own namespace secret, a known author) over exactly these bytes
            raw.id[..32].copy_from_slice(foreign.ns.id().as_bytes());
            raw.sign(&uni.ns, &uni.authors[a_idx]);
            kind = "foreign-namespace-id-signed-with-own-namespace-key";
        }
        27 | 28 => {
            // an author id of small order (the neutral element and friends) with the signature
            // R = identity, s = 0, which a non-strict verifier accepts over ANY message; the
            // namespace signature is honest
            const SMALL_ORDER: [&str; 8] = [
                "0100000000000000000000000000000000000000000000000000000000000000",
                "ecffffffffffffffffffffffffffffffffffffffffffffffffffffffffffff7f",
                "0000000000000000000000000000000000000000000000000000000000000000",
                "0000000000000000000000000000000000000000000000000000000000000080",
                "c7176a703d4dd84fba3c0b760d10670f2a2053fa2c39ccc64ec7fd7792ac037a",
                "c7176a703d4dd84fba3c0b760d10670f2a2053fa2c39ccc64ec7fd7792ac03fa",
                "26e8958fc2b227b045c3f489f2ef98f0d5dfac05d3c63339b13802886d53fc05",
                "26e8958fc2b227b045c3f489f2ef98f0d5dfac05d3c63339b13802886d53fc85",
            ];
            let which = if rng.chance(1, 2) { 0 } else { rng.below(8) };
            let a = hex::decode(SMALL_ORDER[which]).unwrap();
            raw.id[32..64].copy_from_slice(&a);
            let m = raw.signed_bytes();
            raw.namespace_sig = uni.ns.sign(&m).to_bytes();
            raw.author_sig = [0; 64];
            raw.author_sig[0] = 1; // R = identity, s = 0
            kind = "author-id-of-small-order-with-universal-signature";
        }
        22 => {
            // all-zero signatures
            raw.author_sig = [0; 64];
            raw.namespace_sig = [0; 64];
            kind = "zero-signatures";
        }
        _ => {
            // valid author signature, namespace signature missing (zero): a non-member author
            let m = raw.signed_bytes();
            raw.author_sig = uni.authors[a_idx].sign(&m).to_bytes();
            raw.namespace_sig = [0; 64];
            kind = "valid-author-signature-without-namespace-signature";
        }
    }
    Crafted { raw, kind: kind.to_string(), acceptable }
}

fn non_curve_point() -> [u8; 32] {
    // search a y coordinate that does not decompress
    let mut b = [0u8; 32];
    for i in 2u8..=255 {
        b[0] = i;
        if iroh::PublicKey::from_bytes(&b).is_err() {
            return b;
        }
    }
    [0xFF; 32]
}

fn short_id(rng: &mut Rng, valid: &[SignedEntry]) -> Crafted {
    let mut raw = RawEntry::of(rng.pick(valid));
    raw.id.truncate(rng.below(64));
    Crafted { raw, kind: "identifier-shorter-than-64-bytes".into(), acceptable: false }
}

async fn alive(h: &SyncHandle, ns: NamespaceId) -> bool {
    // a reply channel dropped by a panicking actor wakes us while its thread is still unwinding;
    // a request sent now may be queued forever, so look at the panic record first
    tokio::time::sleep(std::time::Duration::from_millis(20)).await;
    if crate::peek_panic() {
        return false;
    }
    matches!(tokio::time::timeout(std::time::Duration::from_secs(10), h.get_state(ns)).await, Ok(Ok(_)))
}

struct Obs {
    dump: Model,
    heads: Vec<(Vec<u8>, u64)>,
    by_key: Vec<SignedEntry>,
}

async fn observe(h: &SyncHandle, ns: NamespaceId) -> anyhow::Result<Obs> {
    use iroh_docs::store::{Query, SortBy, SortDirection};
    let d = act::dump(h, ns).await?;
    let by_key = act::get_many(h, ns, Query::all().include_empty().sort_by(SortBy::KeyAuthor, SortDirection::Asc).build()).await?;
    // heads are read through news detection's source of truth: the store handed back at shutdown
    // is not available mid-run, so heads are observed through has_news_for_us with probe reports
    Ok(Obs { dump: Model::from_entries(d), heads: vec![], by_key })
}

pub fn run(ctx: &mut Ctx) {
    for case in ctx.cases(600, 60_000) {
        let mut rng = ctx.rng(case);
        let rt = act::runtime(1);
        rt.block_on(one(ctx, case, &mut rng));
    }
}

async fn one(ctx: &mut Ctx, case: u64, rng: &mut Rng) {
    let uni = Universe::new(rng, 1);
    let foreign = Universe::with(namespace(2), 2);
    let ns = uni.ns.id();
    let now = uni.t0 + 3_600_000_000; // a fixed "now" (H1)
    iroh_docs::verif::set_clock(now);
    let mut store = Store::memory();
    store.import_namespace(Capability::Write(uni.ns.clone())).unwrap();
    // a second document in the same store (the one foreign entries name): nothing may ever reach it
    store.import_namespace(Capability::Write(foreign.ns.clone())).unwrap();
    let h = act::spawn(store);
    let _ = h.open(foreign.ns.id(), OpenOpts::default()).await;
    let (tx, rx) = async_channel::unbounded::<Event>();
    if h.open(ns, OpenOpts::default().sync().subscribe(tx)).await.is_err() {
        ctx.harness_error("open failed");
        return;
    }
    // seed state
    let pool = uni.entries(rng, 10, 3);
    // One case in three starts while the node's clock is two hours ahead and is then set right (added
    // after seeded change agent-C03-11: a clock that steps back - an NTP correction, a resumed VM - is
    // still the clock; "too far in the future" is judged against what it says now, not against the
    // highest reading the process ever took).
    let step_back = rng.chance(1, 3);
    if step_back {
        iroh_docs::verif::set_clock(now + 7_200_000_000);
        ctx.count("cases_in_which_the_clock_steps_back", 1);
    }
    for (i, e) in pool.iter().take(4).enumerate() {
        let _ = h.insert_remote(ns, e.clone(), FROM, ContentStatus::Complete).await;
        if i == 0 && step_back {
            let _ = h.sync_initial_message(ns).await;
            iroh_docs::verif::set_clock(now);
        }
    }
    act::drain(&rx);
    ctx.eval();
    let mut kinds_seen = vec![];
    let steps = rng.range(2, 6);
    'steps: for step in 0..steps {
        let before = match observe(&h, ns).await {
            Ok(o) => o,
            Err(e) => {
                ctx.violation(case, "observe-failed", json!({"err": format!("{e:?}")}));
                break;
            }
        };
        let via_message = rng.chance(3, 5);
        // craft the batch
        let n_values = if via_message { rng.range(1, 8) } else { 1 };
        let mut batch: Vec<Crafted> = vec![];
        for _ in 0..n_values {
            let c = match rng.below(10) {
                0..=2 => {
                    let e = rng.pick(&pool).clone();
                    Crafted { raw: RawEntry::of(&e), kind: "valid".into(), acceptable: true }
                }
                3 if rng.chance(1, 2) => short_id(rng, &pool),
                _ => tampered(rng, &uni, &foreign, &pool, now),
            };
            batch.push(c);
        }
        // expected effects
        let mut model = before.dump.clone();
        let mut expect_events: Vec<SignedEntry> = vec![];
        let mut decodable = true;
        let mut entries: Vec<Option<SignedEntry>> = vec![];
        for c in &batch {
            match c.raw.into_entry() {
                Ok(e) => {
                    if c.acceptable && model.offer(&e).is_some() {
                        expect_events.push(e.clone());
                    }
                    entries.push(Some(e));
                }
                Err(_) => {
                    // the decoder refuses it (allowed: value or error) — then the whole message
                    // cannot be presented; skip this batch
                    decodable = false;
                    entries.push(None);
                }
            }
        }
        for c in &batch {
            ctx.count(&format!("crafted[{}]", c.kind), 1);
            if !kinds_seen.contains(&c.kind) {
                kinds_seen.push(c.kind.clone());
            }
        }
        if !decodable {
            ctx.count("batches_refused_by_decoder", 1);
            continue;
        }
        if std::env::var("VCHECK_TRACE").is_ok() {
            eprintln!("  step {step} via_message={via_message} batch={:?}", batch.iter().map(|c| c.kind.clone()).collect::<Vec<_>>());
        }
        let metric_before = h.metrics().new_entries_remote.get();
        let desc: Vec<String> = batch.iter().map(|c| c.kind.clone()).collect();
        let path;
        let mut direct_result: Option<bool> = None;
        if via_message {
            path = "reconciliation-message";
            // split the values over 1..3 item parts, mixed with a fingerprint part
            let mut parts = vec![];
            let mut rest: Vec<(RawEntry, u8)> = batch.iter().map(|c| (c.raw.clone(), rng.below(3) as u8)).collect();
            let zero = vec![0u8; 64];
            while !rest.is_empty() {
                let take = rng.range(1, rest.len());
                let vals: Vec<_> = rest.drain(..take).collect();
                parts.push(RawPart::Item { x: zero.clone(), y: zero.clone(), values: vals, have_local: rng.chance(1, 2) });
                if rng.chance(1, 3) {
                    parts.push(RawPart::Fingerprint { x: zero.clone(), y: zero.clone(), fp: rng.fill32() });
                }
            }
            let msg = match (RawMessage { parts }).into_message() {
                Ok(m) => m,
                Err(_) => {
                    ctx.count("batches_refused_by_decoder", 1);
                    continue;
                }
            };
            let r = h.sync_process_message(ns, msg, FROM, SyncOutcome::default()).await;
            if std::env::var("VCHECK_TRACE").is_ok() {
                eprintln!("  -> returned ok={}", r.is_ok());
            }
            if r.is_err() && !alive(&h, ns).await {
                died(ctx, case, &desc, path);
                break 'steps;
            }
        } else {
            path = "remote-insert";
            let e = entries[0].clone().unwrap();
            let r = h.insert_remote(ns, e, FROM, ContentStatus::Complete).await;
            if r.is_err() && !alive(&h, ns).await {
                died(ctx, case, &desc, path);
                break 'steps;
            }
            direct_result = Some(r.is_ok());
        }
        ctx.count(&format!("batches[{path}]"), 1);
        let events = act::drain(&rx);
        let after = match observe(&h, ns).await {
            Ok(o) => o,
            Err(e) => {
                ctx.violation(case, "observe-failed", json!({"err": format!("{e:?}")}));
                break;
            }
        };
        let metric_after = h.metrics().new_entries_remote.get();
        let detail = |extra: serde_json::Value| {
            json!({"step": step, "path": path, "batch": desc, "state_before": before.dump.short(), "state_after": after.dump.short(),
                "expected_state": model.short(), "events": events.len(), "expected_events": expect_events.len(), "extra": extra})
        };
        // 1. stored?
        if after.dump != model {
            // which crafted entry got in?
            let mut sig = "state-differs-after-batch".to_string();
            for (c, e) in batch.iter().zip(entries.iter()) {
                let e = e.as_ref().unwrap();
                let v = E::of(e);
                let held = after.dump.map.get(&(v.author, v.key.clone())) == Some(e);
                let was = before.dump.map.get(&(v.author, v.key.clone())) == Some(e);
                if held && !was && !c.acceptable {
                    sig = format!("stored[{}][{path}]", c.kind);
                    break;
                }
            }
            if sig == "state-differs-after-batch" && model.map.len() > after.dump.map.len() {
                sig = format!("valid-entry-in-batch-not-applied[{path}]");
            }
            ctx.violation(case, &sig, detail(json!({})));
            break;
        }
        // 2. announced?
        let got_events: Vec<SignedEntry> = events
            .iter()
            .filter_map(|ev| match ev {
                Event::RemoteInsert { entry, .. } => Some(entry.clone()),
                Event::LocalInsert { entry, .. } => Some(entry.clone()),
            })
            .collect();
        if got_events != expect_events {
            let extra: Vec<_> = got_events.iter().filter(|g| !expect_events.contains(g)).map(|g| E::of(g).short()).collect();
            let sig = if !extra.is_empty() { format!("announced-entry-that-must-not-be-accepted[{path}]") } else { format!("events-differ[{path}]") };
            ctx.violation(case, &sig, detail(json!({"unexpected_events": extra})));
            break;
        }
        // 3. counted?
        if let Some(ok) = direct_result {
            let want_ok = expect_events.len() == 1;
            if ok != want_ok {
                let sig = if ok { format!("remote-insert-reported-success[{}]", batch[0].kind) } else { "valid-remote-insert-refused".to_string() };
                ctx.violation(case, &sig, detail(json!({})));
                break;
            }
            if (metric_after - metric_before == 1) != want_ok {
                ctx.violation(case, "inserted-counter-disagrees-with-acceptance", detail(json!({"delta": metric_after - metric_before})));
                break;
            }
        }
        // 3b. nothing was written into the neighbouring document
        match act::dump(&h, foreign.ns.id()).await {
            Ok(v) if v.is_empty() => {}
            other => {
                ctx.violation(case, &format!("entry-written-into-another-document[{path}]"), detail(json!({"other_document_entries": other.map(|v| v.len()).unwrap_or(0)})));
                break;
            }
        }
        // 4. indexes unchanged by a fully rejected batch
        if expect_events.is_empty() && (after.by_key != before.by_key || after.heads != before.heads) {
            ctx.violation(case, "rejected-batch-changed-an-index", detail(json!({})));
            break;
        }
    }
    iroh_docs::verif::set_clock(0);
    if let Ok(mut store) = h.shutdown().await {
        // the head table must still agree with the entries held (a rejected entry must not touch it)
        if let (Ok(hd), Ok(dm)) = (crate::util::heads(&mut store, ns), crate::util::dump_model(&mut store, ns)) {
            let got: std::collections::BTreeMap<[u8; 32], u64> = hd.into_iter().map(|(a, (t, _))| (a, t)).collect();
            if got != dm.heads() {
                ctx.violation(case, "heads-disagree-with-entries-after-hostile-batches", json!({"kinds": kinds_seen}));
            }
        }
    }
    if kinds_seen.len() >= 2 {
        ctx.nontrivial(h64(format!("{case}{kinds_seen:?}").as_bytes()));
    }
    if ctx.want_sample() {
        ctx.sample(json!({"case": case, "crafted_kinds": kinds_seen}));
    }
}

fn died(ctx: &mut Ctx, case: u64, desc: &[String], path: &str) {
    if std::env::var("VCHECK_TRACE").is_ok() {
        eprintln!("  died");
    }
    let p = crate::take_panic();
    let short = desc.iter().any(|d| d.starts_with("identifier-shorter"));
    let sig = if short { format!("store-actor-died[identifier-shorter-than-64-bytes][{path}]") } else { format!("store-actor-died[{path}]") };
    ctx.violation(case, &sig, json!({"batch": desc, "panic": format!("{p:?}")}));
}
