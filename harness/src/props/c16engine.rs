//! C16, mode `engine` — the set reported for garbage-collection protection, at the place where the
//! blob store asks for it.
//!
//! A complete docs engine (store actor on a database file, live actor, protect task) with a protect
//! handler installed;
//! the harness plays the blob store's garbage collector and calls the protect callback. Documents
//! are created, written (with and without content), pruned by prefix deletion, closed and dropped
//! through the public API. Whenever the callback is called on the healthy engine it must answer
//! `Continue` with exactly the content hashes of the entries the documents hold (read back through
//! the API; the hash of the empty blob, which deletion markers carry, is not compared). At the end
//! the engine is taken away under the collector (shut down, or dropped) and the callback is called
//! again: the only acceptable answers are `Abort` (the run is skipped) or the exact set — never
//! `Continue` with hashes missing, which would let the collector sweep content of entries held.

use std::{
    collections::{BTreeSet, HashSet},
    time::Duration,
};

use iroh::{endpoint::presets, protocol::ProtocolHandler, Endpoint, RelayMode, SecretKey};
use iroh_blobs::{store::ProtectOutcome, Hash};
use iroh_docs::{api::Doc, engine::ProtectCallbackHandler, protocol::Docs, store::Query};
use iroh_gossip::net::Gossip;
use n0_future::StreamExt;
use serde_json::json;

use crate::{
    ctx::Ctx,
    gen::ALPHABET,
    rng::{h64, Rng},
};

async fn held_hashes(docs: &[Option<Doc>]) -> anyhow::Result<BTreeSet<[u8; 32]>> {
    let mut s = BTreeSet::new();
    for d in docs.iter().flatten() {
        let st = d.get_many(Query::all().include_empty()).await?;
        tokio::pin!(st);
        while let Some(e) = st.next().await {
            let e = e?;
            if e.content_hash() != Hash::EMPTY {
                s.insert(*e.content_hash().as_bytes());
            }
        }
    }
    Ok(s)
}

pub fn run(ctx: &mut Ctx) {
    let rt = crate::act::runtime(2);
    rt.block_on(async {
        let sk = SecretKey::from_bytes(&[150 + ctx.shard as u8; 32]);
        let ep = match Endpoint::builder(presets::Minimal).secret_key(sk).relay_mode(RelayMode::Disabled).bind().await {
            Ok(e) => e,
            Err(e) => {
                ctx.harness_error(format!("cannot bind: {e:?}"));
                return;
            }
        };
        let gossip = Gossip::builder().spawn(ep.clone());
        for case in ctx.cases(300, 20_000) {
            let mut rng = ctx.rng(case);
            let r = tokio::time::timeout(Duration::from_secs(120), one(ctx, case, &mut rng, &ep, &gossip)).await;
            if r.is_err() {
                ctx.harness_error("history did not finish within 120 s");
                break;
            }
            if !ctx.harness_errors.is_empty() {
                break;
            }
        }
        ep.close().await;
    });
}

async fn one(ctx: &mut Ctx, case: u64, rng: &mut Rng, ep: &Endpoint, gossip: &Gossip) {
    let blobs = iroh_blobs::store::mem::MemStore::new();
    let (handler, cb) = ProtectCallbackHandler::new();
    // the documents live in a file: what they hold is still held when the engine has gone away
    let dir = match tempfile::Builder::new().prefix("vcheck-c16e").tempdir_in(if std::path::Path::new("/dev/shm").exists() { "/dev/shm" } else { "/tmp" }) {
        Ok(d) => d,
        Err(e) => {
            ctx.harness_error(format!("tempdir: {e:?}"));
            return;
        }
    };
    let docs = match Docs::persistent(dir.path().to_path_buf()).protect_handler(handler).spawn(ep.clone(), (*blobs).clone(), gossip.clone()).await {
        Ok(d) => d,
        Err(e) => {
            ctx.harness_error(format!("cannot spawn the engine: {e:?}"));
            return;
        }
    };
    ctx.eval();
    let mut trace: Vec<String> = vec![];
    let authors = match (docs.author_create().await, docs.author_create().await) {
        (Ok(a), Ok(b)) => [a, b],
        _ => {
            ctx.harness_error("author_create failed");
            return;
        }
    };
    let n_docs = rng.range(1, 3);
    let mut open: Vec<Option<Doc>> = vec![];
    for _ in 0..n_docs {
        match docs.create().await {
            Ok(d) => open.push(Some(d)),
            Err(e) => {
                ctx.harness_error(format!("create: {e:?}"));
                return;
            }
        }
    }
    let mut dropped_any = false;
    let mut asked = 0;
    let steps = rng.range(3, 12);
    for step in 0..=steps {
        if step < steps {
            let live: Vec<usize> = open.iter().enumerate().filter(|(_, d)| d.is_some()).map(|(i, _)| i).collect();
            if live.is_empty() {
                break;
            }
            let di = *rng.pick(&live);
            let d = open[di].as_ref().unwrap().clone();
            let a = authors[rng.below(2)];
            let k: Vec<u8> = (0..rng.range(0, 3)).map(|_| *rng.pick(&ALPHABET)).collect();
            match rng.below(10) {
                0..=3 => {
                    let v = format!("content-{case}-{step}-{}", rng.below(3));
                    let r = d.set_bytes(a, k.clone(), v.into_bytes()).await;
                    trace.push(format!("doc{di}: set_bytes {} -> {}", hex::encode(&k), r.is_ok()));
                }
                4 | 5 => {
                    // an entry whose content the node does not have
                    let h = Hash::new(format!("absent-{case}-{step}").as_bytes());
                    let r = d.set_hash(a, k.clone(), h, 1 + rng.below(100) as u64).await;
                    trace.push(format!("doc{di}: set_hash {} -> {}", hex::encode(&k), r.is_ok()));
                }
                6 | 7 => {
                    let r = d.del(a, k.clone()).await;
                    trace.push(format!("doc{di}: del prefix {} -> {:?}", hex::encode(&k), r.ok()));
                }
                8 if live.len() > 1 || rng.chance(1, 3) => {
                    // the document goes away with everything it protects
                    let id = d.id();
                    let _ = d.close().await;
                    let r = docs.drop_doc(id).await;
                    trace.push(format!("doc{di}: close and drop -> {}", r.is_ok()));
                    if r.is_ok() {
                        open[di] = None;
                        dropped_any = true;
                    }
                }
                _ => {
                    let r = docs.create().await;
                    if let Ok(nd) = r {
                        open.push(Some(nd));
                        trace.push(format!("doc{}: created", open.len() - 1));
                    }
                }
            }
            if !rng.chance(1, 2) {
                continue;
            }
        }
        // the collector asks
        let want = match held_hashes(&open).await {
            Ok(w) => w,
            Err(e) => {
                ctx.harness_error(format!("reading the documents back failed: {e:?}"));
                return;
            }
        };
        let mut live = HashSet::new();
        let outcome = match tokio::time::timeout(Duration::from_secs(20), cb(&mut live)).await {
            Ok(o) => o,
            Err(_) => {
                ctx.harness_error("the protect callback did not answer within 20 s");
                return;
            }
        };
        asked += 1;
        ctx.count("protect_callback_calls_on_the_healthy_engine", 1);
        let got: BTreeSet<[u8; 32]> = live.iter().filter(|h| **h != Hash::EMPTY).map(|h| *h.as_bytes()).collect();
        if !matches!(outcome, ProtectOutcome::Continue) {
            ctx.violation(case, "healthy-engine-refused-to-report-its-hashes", json!({"trace": trace}));
            return;
        }
        if got != want {
            let sig = if want.difference(&got).next().is_some() { "protected-hashes-miss-held-hash" } else { "protected-hashes-include-hash-not-held" };
            ctx.violation(case, sig, json!({"reported": got.len(), "held": want.len(), "trace": trace}));
            return;
        }
    }
    // the engine goes away under the collector
    let want = held_hashes(&open).await.unwrap_or_default();
    let how = rng.below(2);
    if how == 0 {
        ProtocolHandler::shutdown(&docs).await;
        trace.push("engine shut down".into());
    } else {
        open.clear();
        drop(docs);
        trace.push("engine dropped".into());
    }
    let mut live = HashSet::new();
    match tokio::time::timeout(Duration::from_secs(20), cb(&mut live)).await {
        Err(_) => ctx.harness_error("the protect callback did not answer within 20 s after the engine went away"),
        Ok(outcome) => {
            ctx.count("protect_callback_calls_after_the_engine_went_away", 1);
            let got: BTreeSet<[u8; 32]> = live.iter().filter(|h| **h != Hash::EMPTY).map(|h| *h.as_bytes()).collect();
            match outcome {
                ProtectOutcome::Abort => ctx.count("collector_told_to_abort", 1),
                ProtectOutcome::Continue => {
                    ctx.count("collector_told_to_continue", 1);
                    if want.difference(&got).next().is_some() {
                        ctx.violation(case, "collector-told-to-continue-without-the-hashes-held", json!({"how": if how == 0 { "shutdown" } else { "drop" }, "reported": got.len(), "held": want.len(), "trace": trace}));
                    }
                }
            }
        }
    }
    blobs.shutdown().await.ok();
    if asked > 0 && dropped_any {
        ctx.nontrivial(h64(format!("{trace:?}").as_bytes()));
    } else if asked > 1 {
        ctx.nontrivial(h64(format!("{trace:?}").as_bytes()));
    }
    if ctx.want_sample() {
        ctx.sample(json!({"case": case, "mode": "engine", "trace": trace}));
    }
}
