//! C16, mode `engine` — the set reported for garbage-collection protection, at the place where the
//! blob store asks for it.
//!
//! A complete docs engine (store actor on a database file, live actor, protect task) with a protect
//! handler installed;
//! the harness plays the blob store's garbage collector and calls the protect callback. Documents
//! are created, written (with and without content), pruned by prefix deletion, closed and dropped
//! through the public API. Whenever the callback is called on the healthy engine it must answer
//! `Continue` with exactly the content hashes of the entries the documents hold (read back through
//! the API; the hash of the empty blob, which deletion markers carry, is not compared). At the end
//! the engine is taken away under the collector (shut down, or dropped) and the callback is called
//! again: the only acceptable answers are `Abort` (the run is skipped) or the exact set — never
//! `Continue` with hashes missing, which would let the collector sweep content of entries held.

use std::{
    collections::{BTreeSet, HashSet},
    time::Duration,
};

use iroh::{endpoint::presets, protocol::ProtocolHandler, Endpoint, RelayMode, SecretKey};
use iroh_blobs::{store::ProtectOutcome, Hash};
use iroh_docs::{api::Doc, engine::ProtectCallbackHandler, protocol::Docs, store::Query};
use iroh_gossip::net::Gossip;
use n0_future::StreamExt;
use serde_json::json;

use crate::{
    ctx::Ctx,
    gen::ALPHABET,
    rng::{h64, Rng},
};

async fn held_hashes(docs: &[Option<Doc>]) -> anyhow::Result<BTreeSet<[u8; 32]>> {
    let mut s = BTreeSet::new();
    for d in docs.iter().flatten() {
        let st = d.get_many(Query::all().include_empty()).await?;
        tokio::pin!(st);
        while let Some(e) = st.next().await {
            let e = e?;
            if e.content_hash() != Hash::EMPTY {
                s.insert(*e.content_hash().as_bytes());
            }
        }
    }
    Ok(s)
}

pub fn run(ctx: &mut Ctx) {
    let rt = crate::act::runtime(2);
    rt.block_on(async {
        let sk = SecretKey::from_bytes(&[150 + ctx.shard as u8; 32]);
        let ep = match Endpoint::builder(presets::Minimal).secret_key(sk).relay_mode(RelayMode::Disabled).bind().await {
            Ok(e) => e,
            Err(e) => {
                ctx.harness_error(format!("cannot bind: {e:?}"));
                return;
            }
        };
        let gossip = Gossip::builder().spawn(ep.clone());
        for case in ctx.cases(300, 20_000) {
            let mut rng = ctx.rng(case);
            let r = tokio::time::timeout(Duration::from_secs(120), one(ctx, case, &mut rng, &ep, &gossip)).await;
            if r.is_err() {
                ctx.harness_error("history did not finish within 120 s");
                break;
            }
            if !ctx.harness_errors.is_empty() {
                break;
            }
        }
        ep.close().await;
    });
}

async fn one(ctx: &mut Ctx, case: u64, rng: &mut Rng, ep: &Endpoint, gossip: &Gossip) {
    let blobs = iroh_blobs::store::mem::MemStore::new();
    let (handler, cb) = ProtectCallbackHandler::new();
    // the documents live in a file: what they hold is still held when the engine has gone away
    let dir = match tempfile::Builder::new().prefix("vcheck-c16e").tempdir_in(if std::path::Path::new("/dev/shm").exists() { "/dev/shm" } else { "/tmp" }) {
        Ok(d) => d,
        Err(e) => {
            ctx.harness_error(format!("tempdir: {e:?}"));
            return;
        }
    };
    let docs = match Docs::persistent(dir.path().to_path_buf()).protect_handler(handler).spawn(ep.clone(), (*blobs).clone(), gossip.clone()).await {
        Ok(d) => d,
        Err(e) => {
            ctx.harness_error(format!("cannot spawn the engine: {e:?}"));
            return;
        }
    };
    ctx.eval();
    let mut trace: Vec<String> = vec![];
    let authors = match (docs.author_create().await, docs.author_create().await) {
        (Ok(a), Ok(b)) => [a, b],
        _ => {
            ctx.harness_error("author_create failed");
            return;
        }
    };
    let n_docs = rng.range(1, 3);
    let mut open: Vec<Option<Doc>> = vec![];
    for _ in 0..n_docs {
        match docs.create().await {
            Ok(d) => open.push(Some(d)),
            Err(e) => {
                ctx.harness_error(format!("create: {e:?}"));
                return;
            }
        }
    }
    // One history in three starts with the open guard as a client meets it (added after seeded change
    // agent-C16-7): a document held through one or more client handles, synced or not, is dropped. A
    // drop while a second handle has the document open must be refused and must leave the document
    // as it was; in between, a stale handle of a dropped document is used and the same document is
    // imported again.
    if case % 3 == 1 {
        match open_guard(ctx, case, rng, &docs, authors[0], &mut trace).await {
            Ok(Some(d)) => open.push(Some(d)),
            Ok(None) => {}
            Err(e) => {
                ctx.harness_error(format!("open-guard scenario: {e:?}"));
                return;
            }
        }
        if !ctx.violations.is_empty() {
            return;
        }
    }
    let mut dropped_any = false;
    let mut asked = 0;
    let steps = rng.range(3, 12);
    for step in 0..=steps {
        if step < steps {
            let live: Vec<usize> = open.iter().enumerate().filter(|(_, d)| d.is_some()).map(|(i, _)| i).collect();
            if live.is_empty() {
                break;
            }
            let di = *rng.pick(&live);
            let d = open[di].as_ref().unwrap().clone();
            let a = authors[rng.below(2)];
            let k: Vec<u8> = (0..rng.range(0, 3)).map(|_| *rng.pick(&ALPHABET)).collect();
            match rng.below(10) {
                0..=3 => {
                    let v = format!("content-{case}-{step}-{}", rng.below(3));
                    let r = d.set_bytes(a, k.clone(), v.into_bytes()).await;
                    trace.push(format!("doc{di}: set_bytes {} -> {}", hex::encode(&k), r.is_ok()));
                }
                4 | 5 => {
                    // an entry whose content the node does not have
                    let h = Hash::new(format!("absent-{case}-{step}").as_bytes());
                    let r = d.set_hash(a, k.clone(), h, 1 + rng.below(100) as u64).await;
                    trace.push(format!("doc{di}: set_hash {} -> {}", hex::encode(&k), r.is_ok()));
                }
                6 | 7 => {
                    let r = d.del(a, k.clone()).await;
                    trace.push(format!("doc{di}: del prefix {} -> {:?}", hex::encode(&k), r.ok()));
                }
                8 if live.len() > 1 || rng.chance(1, 3) => {
                    // the document goes away with everything it protects
                    let id = d.id();
                    let _ = d.close().await;
                    let r = docs.drop_doc(id).await;
                    trace.push(format!("doc{di}: close and drop -> {}", r.is_ok()));
                    if r.is_ok() {
                        open[di] = None;
                        dropped_any = true;
                    }
                }
                _ => {
                    let r = docs.create().await;
                    if let Ok(nd) = r {
                        open.push(Some(nd));
                        trace.push(format!("doc{}: created", open.len() - 1));
                    }
                }
            }
            if !rng.chance(1, 2) {
                continue;
            }
        }
        // the collector asks
        let want = match held_hashes(&open).await {
            Ok(w) => w,
            Err(e) => {
                ctx.harness_error(format!("reading the documents back failed: {e:?}"));
                return;
            }
        };
        let mut live = HashSet::new();
        let outcome = match tokio::time::timeout(Duration::from_secs(20), cb(&mut live)).await {
            Ok(o) => o,
            Err(_) => {
                ctx.harness_error("the protect callback did not answer within 20 s");
                return;
            }
        };
        asked += 1;
        ctx.count("protect_callback_calls_on_the_healthy_engine", 1);
        let got: BTreeSet<[u8; 32]> = live.iter().filter(|h| **h != Hash::EMPTY).map(|h| *h.as_bytes()).collect();
        if !matches!(outcome, ProtectOutcome::Continue) {
            ctx.violation(case, "healthy-engine-refused-to-report-its-hashes", json!({"trace": trace}));
            return;
        }
        if got != want {
            let sig = if want.difference(&got).next().is_some() { "protected-hashes-miss-held-hash" } else { "protected-hashes-include-hash-not-held" };
            ctx.violation(case, sig, json!({"reported": got.len(), "held": want.len(), "trace": trace}));
            return;
        }
    }
    // the engine goes away under the collector
    let want = held_hashes(&open).await.unwrap_or_default();
    let how = rng.below(2);
    if how == 0 {
        ProtocolHandler::shutdown(&docs).await;
        trace.push("engine shut down".into());
    } else {
        open.clear();
        drop(docs);
        trace.push("engine dropped".into());
    }
    let mut live = HashSet::new();
    // A callback that does not answer at all reports nothing, so nothing is swept: the statement
    // ("the set the store reports ... is exactly ...") is not touched by it. It does happen, about once
    // in 50 000 histories on a loaded machine, only after the engine was *dropped*: every thread idle,
    // the store actor gone, the callback still waiting (DESIGN, C16, observation O2). Counted, not judged.
    let wait = std::env::var("VCHECK_CB_WAIT_S").ok().and_then(|v| v.parse().ok()).unwrap_or(10u64);
    let t_cb = std::time::Instant::now();
    match tokio::time::timeout(Duration::from_secs(wait), cb(&mut live)).await {
        Err(_) => {
            if let Ok(path) = std::env::var("VCHECK_HANG_GDB") {
                let out = std::process::Command::new("gdb").args(["-p", &std::process::id().to_string(), "-batch", "-ex", "thread apply all bt 40"]).output();
                if let Ok(o) = out {
                    let _ = std::fs::write(format!("{path}.{}", std::process::id()), o.stdout);
                }
            }
            ctx.count("collector_left_waiting_after_the_engine_went_away(nothing reported, nothing swept; not judged)", 1);
            ctx.note(format!("case {case}: the protect callback did not answer within {wait} s after the engine went away (how={how})"));
        }
        Ok(outcome) => {
            ctx.count("protect_callback_calls_after_the_engine_went_away", 1);
            if t_cb.elapsed() > Duration::from_secs(5) {
                ctx.note(format!("protect callback took {:?} after the engine went away", t_cb.elapsed()));
            }
            let got: BTreeSet<[u8; 32]> = live.iter().filter(|h| **h != Hash::EMPTY).map(|h| *h.as_bytes()).collect();
            match outcome {
                ProtectOutcome::Abort => ctx.count("collector_told_to_abort", 1),
                ProtectOutcome::Continue => {
                    ctx.count("collector_told_to_continue", 1);
                    if want.difference(&got).next().is_some() {
                        ctx.violation(case, "collector-told-to-continue-without-the-hashes-held", json!({"how": if how == 0 { "shutdown" } else { "drop" }, "reported": got.len(), "held": want.len(), "trace": trace}));
                    }
                }
            }
        }
    }
    blobs.shutdown().await.ok();
    if asked > 0 && dropped_any {
        ctx.nontrivial(h64(format!("{trace:?}").as_bytes()));
    } else if asked > 1 {
        ctx.nontrivial(h64(format!("{trace:?}").as_bytes()));
    }
    if ctx.want_sample() {
        ctx.sample(json!({"case": case, "mode": "engine", "trace": trace}));
    }
}


/// Returns a fresh handle of the scenario's document if it still exists at the end.
/// `None` when the document does not exist (the API reports that as an error or as `None`).
async fn try_open(docs: &Docs, id: iroh_docs::NamespaceId) -> Option<Doc> {
    docs.open(id).await.ok().flatten()
}

/// Close every handle of the scenario (closing a document that is not open is a no-op) and hand the
/// document over to the rest of the history through one fresh handle.
async fn hand_over(docs: &Docs, id: iroh_docs::NamespaceId, handles: Vec<Doc>) -> Option<Doc> {
    for h in handles {
        let _ = h.close().await;
    }
    try_open(docs, id).await
}

async fn open_guard(ctx: &mut Ctx, case: u64, rng: &mut Rng, docs: &Docs, author: iroh_docs::AuthorId, trace: &mut Vec<String>) -> anyhow::Result<Option<Doc>> {
    let secret = iroh_docs::NamespaceSecret::from_bytes(&rng.fill32());
    let id = secret.id();
    let cap = iroh_docs::Capability::Write(secret);
    let mut handles: Vec<Doc> = vec![docs.import_namespace(cap.clone()).await?];
    let mut exists = true;
    let mut entries = 0usize;
    ctx.count("open_guard_scenarios", 1);
    for step in 0..rng.range(3, 9) {
        match rng.below(7) {
            0 | 1 => {
                if let Some(d) = try_open(docs, id).await {
                    handles.push(d);
                    trace.push(format!("guard: another handle opened ({} now)", handles.len()));
                }
            }
            2 => {
                if handles.len() > 1 {
                    let d = handles.pop().unwrap();
                    d.close().await?;
                    trace.push(format!("guard: a handle closed ({} left)", handles.len()));
                }
            }
            3 => {
                let r = handles[0].start_sync(vec![]).await;
                trace.push(format!("guard: start_sync -> {}", r.is_ok()));
            }
            4 => {
                let r = handles[0].leave().await;
                trace.push(format!("guard: leave -> {}", r.is_ok()));
            }
            5 => {
                if handles[0].set_bytes(author, vec![b'g', step as u8], format!("guard-{case}-{step}").into_bytes()).await.is_ok() {
                    entries += 1;
                }
            }
            _ => {
                let held = handles.len();
                let r = docs.drop_doc(id).await;
                trace.push(format!("guard: drop with {held} handle(s) open -> {}", r.is_ok()));
                if held >= 2 {
                    ctx.count("drops_attempted_while_open_through_another_handle", 1);
                    let still = try_open(docs, id).await;
                    let n = match &still {
                        Some(d) => {
                            let st = d.get_many(Query::all().include_empty()).await?;
                            tokio::pin!(st);
                            let mut n = 0;
                            while let Some(e) = st.next().await {
                                e?;
                                n += 1;
                            }
                            Some(n)
                        }
                        None => None,
                    };
                    if r.is_ok() || n != Some(entries) {
                        ctx.violation(case, "document-removed-while-open-through-another-handle", json!({"handles_open": held, "drop_succeeded": r.is_ok(), "entries_before": entries, "entries_after": n, "trace": trace}));
                        return Ok(None);
                    }
                    // what the refused drop did to the handle count is not part of the statement: stop here
                    handles.extend(still);
                    return Ok(hand_over(docs, id, handles).await);
                }
                if r.is_ok() {
                    exists = false;
                    // a stale handle of the dropped document is still around and gets used
                    let stale = handles.pop().unwrap();
                    let r2 = stale.start_sync(vec![]).await;
                    trace.push(format!("guard: start_sync through the stale handle of the dropped document -> {}", r2.is_ok()));
                    ctx.count("stale_handles_used_after_a_drop", 1);
                    if try_open(docs, id).await.is_some() {
                        ctx.violation(case, "dropped-document-can-still-be-opened", json!({"trace": trace}));
                        return Ok(None);
                    }
                    handles = vec![docs.import_namespace(cap.clone()).await?];
                    exists = true;
                    entries = 0;
                    trace.push("guard: the same document imported again".into());
                } else {
                    return Ok(hand_over(docs, id, handles).await);
                }
            }
        }
    }
    if exists {
        Ok(hand_over(docs, id, handles).await)
    } else {
        Ok(None)
    }
}
