//! C02 — replica state is an order-independent function of the entries offered.

use serde_json::json;

use crate::{
    ctx::Ctx,
    gen::Universe,
    model::{is_prefix, self_check, Model, E},
    rng::h64,
    util::{dump_model, import_write, new_store, offer_local, offer_remote, Backend, Offered, Scratch},
};

pub fn run(ctx: &mut Ctx) {
    let scratch = Scratch::new();
    for case in ctx.cases(1_500, 80_000) {
        let mut rng = ctx.rng(case);
        let uni = Universe::new(&mut rng, 1);
        let n = rng.range(3, if ctx.is_quick() { 14 } else { 22 });
        let offers = uni.entries(&mut rng, n, 4);
        let cf = match self_check(&offers) {
            Ok(m) => m,
            Err(e) => {
                ctx.harness_error(e);
                continue;
            }
        };
        ctx.eval();
        // non-trivial: the merge is not simply "everything offered"
        let distinct_offers: std::collections::BTreeSet<E> = offers.iter().map(E::of).collect();
        if cf.map.len() < distinct_offers.len() {
            let mut bytes = vec![];
            for e in &distinct_offers {
                bytes.extend_from_slice(e.short().as_bytes());
            }
            ctx.nontrivial(h64(&bytes));
        }
        if ctx.want_sample() {
            ctx.sample(json!({
                "case": case,
                "offers": offers.iter().map(|e| E::of(e).short()).collect::<Vec<_>>(),
                "expected_state": cf.short(),
            }));
        }

        // permutations
        let mut perms: Vec<Vec<usize>> = vec![];
        let idx: Vec<usize> = (0..offers.len()).collect();
        let mut asc = idx.clone();
        asc.sort_by_key(|&i| offers[i].timestamp());
        let mut desc = asc.clone();
        desc.reverse();
        let mut markers_last = idx.clone();
        markers_last.sort_by_key(|&i| offers[i].content_len() == 0);
        let mut markers_first = markers_last.clone();
        markers_first.reverse();
        perms.push(asc);
        perms.push(desc);
        perms.push(markers_last);
        perms.push(markers_first);
        let extra = if ctx.is_quick() { 2 } else { 4 };
        for _ in 0..extra {
            let mut p = idx.clone();
            rng.shuffle(&mut p);
            perms.push(p);
        }

        for (pi, perm) in perms.iter().enumerate() {
            let backend = if rng.chance(1, 12) {
                Backend::File
            } else {
                Backend::Memory
            };
            let (mut store, _path) = new_store(backend, &scratch);
            import_write(&mut store, &uni.ns);
            for a in &uni.authors {
                store.import_author(a.clone()).unwrap();
            }
            let ns = uni.ns.id();
            // sequence with re-offers
            let mut seq: Vec<usize> = perm.clone();
            let dups = rng.below(3);
            for _ in 0..dups {
                let at = rng.below(seq.len() + 1);
                let what = *rng.pick(perm);
                seq.insert(at, what);
            }
            let mut model = Model::new();
            let mut ok = true;
            let sparse = rng.chance(1, 3);
            for (step, &oi) in seq.iter().enumerate() {
                let e = &offers[oi];
                let ev = E::of(e);
                // (a clock override of 0 means 'real clock', so epoch entries go through the remote path)
                let local = rng.chance(1, 3) && e.timestamp() != 0;
                let before = model.clone();
                let expected = model.offer(e);
                let got = if local {
                    let a = uni
                        .authors
                        .iter()
                        .find(|a| a.id().to_bytes() == ev.author)
                        .unwrap();
                    offer_local(&mut store, ns, a, e)
                } else {
                    offer_remote(&mut store, ns, e)
                };
                ctx.count(if local { "offers_local" } else { "offers_remote" }, 1);
                // A full dump goes through a snapshot, which commits the open write batch. In a
                // sparse run most steps are therefore observed through the non-committing lookup
                // only, so that several offers (and a refused call) share one uncommitted batch;
                // the full dump follows at the latest after the last step.
                if sparse && step + 1 < seq.len() && !rng.chance(1, 3) {
                    if rng.chance(1, 4) {
                        let missing = crate::gen::namespace(99).id();
                        let r = store.register_useful_peer(missing, [7u8; 32]);
                        ctx.count("refused_calls_inside_a_batch", r.is_err() as u64);
                    }
                    ctx.count("steps_observed_without_committing", 1);
                    let looked = store.get_exact(ns, iroh_docs::AuthorId::from(&ev.author), &ev.key, true).ok().flatten();
                    let want = model.map.get(&(ev.author, ev.key.clone()));
                    if got != (match expected { Some(n) => Offered::Stored(n), None => Offered::Superseded }) || looked.as_ref() != want {
                        ctx.violation(
                            case,
                            if looked.as_ref() != want { "lookup-inside-the-batch-differs-from-specification" } else { "offer-result-differs-from-specification" },
                            json!({
                                "perm": pi, "step": step, "path": if local {"local"} else {"remote"},
                                "backend": format!("{backend:?}"),
                                "offered": ev.short(),
                                "state_before": before.short(),
                                "got_result": format!("{got:?}"),
                                "expected_result": format!("{expected:?}"),
                                "looked_up": looked.as_ref().map(|x| E::of(x).short()),
                                "expected_lookup": want.map(|x| E::of(x).short()),
                                "sequence": seq.iter().map(|&i| E::of(&offers[i]).short()).collect::<Vec<_>>(),
                            }),
                        );
                        ok = false;
                        break;
                    }
                    continue;
                }
                let actual = match dump_model(&mut store, ns) {
                    Ok(m) => m,
                    Err(err) => {
                        ctx.violation(case, "dump-failed", json!({"error": format!("{err:?}")}));
                        ok = false;
                        break;
                    }
                };
                let exp_out = match expected {
                    Some(n) => Offered::Stored(n),
                    None => Offered::Superseded,
                };
                if expected.is_none() {
                    ctx.count("offers_blocked", 1);
                } else if expected.unwrap() > 0 {
                    ctx.count("offers_pruning", 1);
                }
                if got != exp_out || actual != model {
                    let sig = classify(&before, &ev, &expected, &got, &actual, &model);
                    ctx.violation(
                        case,
                        &sig,
                        json!({
                            "perm": pi, "step": step, "path": if local {"local"} else {"remote"},
                            "backend": format!("{backend:?}"),
                            "offered": ev.short(),
                            "state_before": before.short(),
                            "expected_result": format!("{exp_out:?}"),
                            "got_result": format!("{got:?}"),
                            "expected_state": model.short(),
                            "actual_state": actual.short(),
                            "sequence": seq.iter().map(|&i| E::of(&offers[i]).short()).collect::<Vec<_>>(),
                        }),
                    );
                    ok = false;
                    break;
                }
            }
            ctx.count("permutations", 1);
            if ok && model != cf {
                ctx.harness_error("sequential model != closed form after permutation");
            }
            // The state a replica shows is the same through every way of reading it (added after seeded
            // change agent-C02-9): after the last offer the key-ordered scan and the latest-per-key
            // view must show exactly the entries of the closed form, whatever the order of arrival.
            if ok {
                use iroh_docs::store::{Query, SortBy, SortDirection};
                let by_key: Option<Vec<iroh_docs::SignedEntry>> = store
                    .get_many(ns, Query::all().include_empty().sort_by(SortBy::KeyAuthor, SortDirection::Asc))
                    .ok()
                    .and_then(|it| it.collect::<anyhow::Result<Vec<_>>>().ok());
                let want: std::collections::BTreeSet<E> = cf.plain();
                match by_key {
                    Some(v) => {
                        let got: std::collections::BTreeSet<E> = v.iter().map(E::of).collect();
                        ctx.count("key_ordered_views_compared", 1);
                        if got != want || v.len() != want.len() {
                            ctx.violation(case, "key-ordered-view-depends-on-arrival-order", json!({
                                "perm": pi, "backend": format!("{backend:?}"),
                                "missing": want.difference(&got).map(|e| e.short()).collect::<Vec<_>>(),
                                "extra": got.difference(&want).map(|e| e.short()).collect::<Vec<_>>(),
                                "sequence": seq.iter().map(|&i| E::of(&offers[i]).short()).collect::<Vec<_>>(),
                            }));
                        }
                    }
                    None => ctx.violation(case, "key-ordered-scan-failed", json!({"perm": pi})),
                }
            }
            drop(store);
        }
    }
}

fn classify(
    before: &Model,
    e: &E,
    expected: &Option<usize>,
    got: &Offered,
    actual: &Model,
    model: &Model,
) -> String {
    match (expected, got) {
        (None, Offered::Stored(_)) => {
            // which entry should have blocked it?
            let blocker = before.map.iter().find(|((a, k), x)| {
                *a == e.author && is_prefix(k, &e.key) && e.value() <= E::of(x).value()
            });
            match blocker {
                Some(((_, k), x)) => {
                    let xm = E::of(x).is_marker();
                    if *k == e.key && xm {
                        "superseded-entry-replaced-newer-marker-at-same-key".into()
                    } else if k.is_empty() && !e.key.is_empty() {
                        "newer-empty-key-entry-did-not-block".into()
                    } else if xm {
                        "newer-marker-at-prefix-did-not-block".into()
                    } else {
                        "superseded-entry-was-stored".into()
                    }
                }
                None => "superseded-entry-was-stored".into(),
            }
        }
        (Some(_), Offered::Superseded) => "valid-entry-refused-as-superseded".into(),
        (_, Offered::Rejected(_)) => "valid-entry-rejected".into(),
        _ => {
            // stored on both sides; look at what disappeared
            let gone: Vec<_> = before
                .map
                .keys()
                .filter(|k| !actual.map.contains_key(*k) && model.map.contains_key(*k))
                .collect();
            if gone.iter().any(|(a, _)| *a != e.author) {
                "removed-entry-of-other-author".into()
            } else if gone.iter().any(|(_, k)| !is_prefix(&e.key, k)) {
                if e.key.last() == Some(&0xFF) {
                    "removed-key-outside-prefix-ending-in-ff".into()
                } else {
                    "removed-key-outside-prefix".into()
                }
            } else if !gone.is_empty() {
                "removed-newer-entry-under-prefix".into()
            } else if actual.map.len() > model.map.len() {
                "not-newer-entry-under-prefix-kept".into()
            } else {
                "wrong-removed-count-or-state".into()
            }
        }
    }
}
