//! C11, mode `net` — the whole accepting stack against a peer that controls the timing.
//!
//! "bob" is a complete docs node (engine, live actor, gossip, blob store, router) on a loopback
//! endpoint: incoming sessions run through the real `net::handle_connection`, the real accept
//! callback and the real completion handlers inside the running live actor. "alice" is a bare
//! endpoint that speaks the wire protocol by hand (frames from the hand-written encoder, replies
//! computed by a real store actor), so that she can leave sessions hanging, dial again while one is
//! held, drop connections at any point after a decline, finish streams in an orderly way or not.
//!
//! Everything is judged at the boundary, and no verdict depends on time:
//!  * **two sessions at once**: a request is *accepted* (first answer is a `Sync` frame) while an
//!    earlier accepted session of the same peer for the same document is still held open — and that
//!    earlier session then demonstrably still works: bob answers the next message on it. A session
//!    whose connection has died in the meantime is not counted.
//!  * **slot not freed**: bob has reported the end of every accepted session (`SyncFinished` events,
//!    which the live actor emits after it freed the slot), alice holds nothing, and a new request is
//!    still declined as `AlreadySyncing`.
//!  * more `SyncFinished` events naming alice than sessions bob ever accepted from her (the
//!    bookkeeping finished a session that was never allowed).
//! Time-outs (no answer within 20 s, end-of-session events missing after 20 s) are inconclusive.

use std::{
    sync::{Arc, Mutex},
    time::Duration,
};

use iroh::{
    endpoint::{presets, Connection, RecvStream, SendStream},
    protocol::Router,
    Endpoint, EndpointAddr, RelayMode, SecretKey,
};
use iroh_docs::{
    actor::{OpenOpts, SyncHandle},
    api::Doc,
    engine::{LiveEvent, Origin},
    protocol::Docs,
    store::{DownloadPolicy, Store},
    sync::ProtocolMessage,
    Author, Capability, NamespaceId, NamespaceSecret, SyncOutcome,
};
use iroh_gossip::net::Gossip;
use n0_future::StreamExt;
use serde_json::json;

use crate::{
    ctx::Ctx,
    props::c09::{frame, msg_init, msg_sync},
    rng::{h64, Rng},
};

struct Bob {
    ep: Endpoint,
    docs: Docs,
    router: Router,
    author: iroh_docs::AuthorId,
    addr: EndpointAddr,
}

async fn make_bob(seed: u8) -> anyhow::Result<Bob> {
    let sk = SecretKey::from_bytes(&[seed; 32]);
    let ep = Endpoint::builder(presets::Minimal).secret_key(sk).relay_mode(RelayMode::Disabled).bind().await?;
    let gossip = Gossip::builder().spawn(ep.clone());
    let blobs = iroh_blobs::store::mem::MemStore::new();
    let blobs: iroh_blobs::api::Store = (*blobs).clone();
    let docs = Docs::memory().spawn(ep.clone(), blobs, gossip.clone()).await?;
    let router = Router::builder(ep.clone()).accept(iroh_docs::ALPN, docs.clone()).accept(iroh_gossip::ALPN, gossip).spawn();
    let author = docs.api().author_create().await?;
    let addr = ep.addr();
    Ok(Bob { ep, docs, router, author, addr })
}

/// The same workload serves two properties: the session-slot invariants N1–N4 are C11's, "a
/// declined request changes nothing in the store" is C10's. Each run judges only its own.
fn viol11(ctx: &mut Ctx, case: u64, sig: &str, detail: serde_json::Value) {
    if ctx.prop == "C11" {
        ctx.violation(case, sig, detail)
    } else {
        ctx.count(&format!("seen_but_judged_by_C11[{sig}]"), 1)
    }
}
fn viol10(ctx: &mut Ctx, case: u64, sig: &str, detail: serde_json::Value) {
    if ctx.prop == "C10" {
        ctx.violation(case, sig, detail)
    } else {
        ctx.count(&format!("seen_but_judged_by_C10[{sig}]"), 1)
    }
}

enum Answer {
    Sync(ProtocolMessage),
    Abort(u8),
    Eof,
    Broken(String),
    Timeout,
}

async fn read_exact_opt(recv: &mut RecvStream, buf: &mut [u8]) -> Result<bool, String> {
    // Ok(false): orderly end of stream before the first byte
    let mut got = 0;
    while got < buf.len() {
        match recv.read(&mut buf[got..]).await {
            Ok(Some(n)) => got += n,
            Ok(None) => return if got == 0 { Ok(false) } else { Err("end of stream inside a frame".into()) },
            Err(e) => return Err(format!("{e}")),
        }
    }
    Ok(true)
}

async fn read_answer(recv: &mut RecvStream) -> Answer {
    let fut = async {
        let mut len = [0u8; 4];
        match read_exact_opt(recv, &mut len).await {
            Ok(false) => return Answer::Eof,
            Err(e) => return Answer::Broken(e),
            Ok(true) => {}
        }
        let n = u32::from_be_bytes(len) as usize;
        if n > (1 << 26) {
            return Answer::Broken(format!("frame of {n} bytes"));
        }
        let mut body = vec![0u8; n];
        match read_exact_opt(recv, &mut body).await {
            Ok(true) => {}
            Ok(false) if n == 0 => {}
            Ok(false) => return Answer::Broken("end of stream inside a frame".into()),
            Err(e) => return Answer::Broken(e),
        }
        match body.first() {
            Some(1) => match postcard::from_bytes::<ProtocolMessage>(&body[1..]) {
                Ok(m) => Answer::Sync(m),
                Err(e) => Answer::Broken(format!("undecodable sync frame: {e}")),
            },
            Some(2) if body.len() == 2 => Answer::Abort(body[1]),
            _ => Answer::Broken(format!("unexpected frame {:02x?}", &body[..body.len().min(8)])),
        }
    };
    match tokio::time::timeout(Duration::from_secs(20), fut).await {
        Ok(a) => a,
        Err(_) => Answer::Timeout,
    }
}

enum St {
    /// accepted, bob waits for our answer to this message
    Held(ProtocolMessage),
    /// declined, connection still open
    Declined,
    Ended,
}

struct Sess {
    id: usize,
    conn: Connection,
    send: SendStream,
    recv: RecvStream,
    st: St,
    accepted: bool,
    outcome: SyncOutcome,
}

fn abort_name(r: u8) -> &'static str {
    match r {
        0 => "NotFound",
        1 => "AlreadySyncing",
        2 => "InternalServerError",
        _ => "?",
    }
}

pub fn run(ctx: &mut Ctx) {
    let rt = crate::act::runtime(2);
    rt.block_on(async {
        let seed = 40 + (ctx.shard as u8) * 2;
        let bob = match make_bob(seed).await {
            Ok(b) => b,
            Err(e) => {
                ctx.harness_error(format!("cannot create the docs node: {e:?}"));
                return;
            }
        };
        // both id orders between bob and alice occur across shards
        let alice_seed = if ctx.shard % 2 == 0 { seed + 1 } else { seed.wrapping_sub(1) };
        let alice_ep = match Endpoint::builder(presets::Minimal).secret_key(SecretKey::from_bytes(&[alice_seed; 32])).relay_mode(RelayMode::Disabled).alpns(vec![iroh_docs::ALPN.to_vec()]).bind().await {
            Ok(e) => e,
            Err(e) => {
                ctx.harness_error(format!("cannot bind: {e:?}"));
                return;
            }
        };
        // bob dials alice when a start_sync finds her among the peers stored for a document: she
        // takes the connection and closes it at once, so that such a dial ends quickly
        let dials_from_bob = Arc::new(std::sync::atomic::AtomicU64::new(0));
        let acceptor = {
            let ep = alice_ep.clone();
            let n = dials_from_bob.clone();
            tokio::spawn(async move {
                while let Some(incoming) = ep.accept().await {
                    if let Ok(conn) = incoming.await {
                        n.fetch_add(1, std::sync::atomic::Ordering::SeqCst);
                        conn.close(9u32.into(), b"not now");
                    }
                }
            })
        };
        let alice_store = SyncHandle::spawn(Store::memory(), None, "alice".into());
        let alice_author = Author::from_bytes(&[9u8; 32]);
        let _ = alice_store.import_author(alice_author.clone()).await;
        for case in ctx.cases(400, 40_000) {
            let mut rng = ctx.rng(case);
            let r = tokio::time::timeout(Duration::from_secs(180), one(ctx, case, &mut rng, &bob, &alice_ep, &alice_store, &alice_author)).await;
            if r.is_err() {
                ctx.harness_error("history did not finish within 180 s");
                break;
            }
            if !ctx.harness_errors.is_empty() {
                break;
            }
        }
        ctx.count("dials_from_bob_taken_and_closed", dials_from_bob.load(std::sync::atomic::Ordering::SeqCst));
        acceptor.abort();
        alice_ep.close().await;
        let _ = alice_store.shutdown().await;
        let _ = bob.router.shutdown().await;
        bob.ep.close().await;
    });
}

async fn dial(alice: &Endpoint, store: &SyncHandle, bob: &EndpointAddr, ns: NamespaceId, id: usize) -> anyhow::Result<(Sess, Answer)> {
    let conn = tokio::time::timeout(Duration::from_secs(20), alice.connect(bob.clone(), iroh_docs::ALPN)).await??;
    let (mut send, mut recv) = conn.open_bi().await?;
    let m = store.sync_initial_message(ns).await?;
    send.write_all(&frame(&msg_init(ns.as_bytes(), &postcard::to_stdvec(&m)?))).await?;
    let a = read_answer(&mut recv).await;
    Ok((Sess { id, conn, send, recv, st: St::Ended, accepted: false, outcome: SyncOutcome::default() }, a))
}

/// One protocol step on a held session. Ok(true): the session is still held, Ok(false): it ended in
/// an orderly way, Err: bob's side of it is gone.
async fn step(s: &mut Sess, store: &SyncHandle, ns: NamespaceId, bob_id: [u8; 32]) -> Result<bool, String> {
    let St::Held(m) = std::mem::replace(&mut s.st, St::Ended) else { return Err("not held".into()) };
    let (reply, o) = store.sync_process_message(ns, m, bob_id, std::mem::take(&mut s.outcome)).await.map_err(|e| format!("alice: {e}"))?;
    s.outcome = o;
    match reply {
        Some(r) => {
            let bytes = postcard::to_stdvec(&r).map_err(|e| e.to_string())?;
            s.send.write_all(&frame(&msg_sync(&bytes))).await.map_err(|e| format!("write: {e}"))?;
            match read_answer(&mut s.recv).await {
                Answer::Sync(m) => {
                    s.st = St::Held(m);
                    Ok(true)
                }
                Answer::Eof => {
                    let _ = s.send.finish();
                    Ok(false)
                }
                Answer::Abort(r) => Err(format!("abort {}", abort_name(r))),
                Answer::Broken(e) => Err(e),
                Answer::Timeout => Err("no answer within 20 s".into()),
            }
        }
        None => {
            let _ = s.send.finish();
            match read_answer(&mut s.recv).await {
                Answer::Eof => Ok(false),
                Answer::Sync(_) => Err("frame after the end".into()),
                Answer::Abort(r) => Err(format!("abort {}", abort_name(r))),
                Answer::Broken(e) => Err(e),
                Answer::Timeout => Err("no answer within 20 s".into()),
            }
        }
    }
}

async fn end_orderly(s: &mut Sess) {
    let _ = s.send.finish();
    let _ = tokio::time::timeout(Duration::from_secs(5), s.recv.read_to_end(1 << 20)).await;
    let _ = tokio::time::timeout(Duration::from_secs(5), s.send.stopped()).await;
    s.conn.close(0u32.into(), b"done");
    s.st = St::Ended;
}

#[allow(clippy::too_many_arguments)]
async fn one(ctx: &mut Ctx, case: u64, rng: &mut Rng, bob: &Bob, alice_ep: &Endpoint, alice_store: &SyncHandle, alice_author: &Author) {
    let secret = NamespaceSecret::from_bytes(&rng.fill32());
    let ns = secret.id();
    let bob_id = *bob.ep.id().as_bytes();
    let alice_id = alice_ep.id();
    let mut trace: Vec<String> = vec![];
    // --- the document on both sides: each holds entries the other lacks, so a session takes several messages
    let doc: Doc = match bob.docs.api().import_namespace(Capability::Write(secret.clone())).await {
        Ok(d) => d,
        Err(e) => {
            ctx.harness_error(format!("bob import: {e:?}"));
            return;
        }
    };
    let _ = doc.set_download_policy(DownloadPolicy::NothingExcept(vec![])).await;
    for i in 0..rng.range(1, 3) {
        let _ = doc.set_bytes(bob.author, format!("b{i}").into_bytes(), format!("bob-{case}-{i}").into_bytes()).await;
    }
    let events: Arc<Mutex<Vec<(bool, bool)>>> = Default::default(); // (origin is Accept, result ok) of SyncFinished events naming alice
    let sub = match doc.subscribe().await {
        Ok(s) => s,
        Err(e) => {
            ctx.harness_error(format!("subscribe: {e:?}"));
            return;
        }
    };
    let drainer = {
        let events = events.clone();
        tokio::spawn(async move {
            let mut sub = sub;
            while let Some(ev) = sub.next().await {
                if let Ok(LiveEvent::SyncFinished(e)) = ev {
                    if e.peer == alice_id {
                        events.lock().unwrap().push((matches!(e.origin, Origin::Accept), e.result.is_ok()));
                    }
                }
            }
        })
    };
    // a second document that bob holds but does not sync, and one he has never heard of
    let idle_secret = NamespaceSecret::from_bytes(&rng.fill32());
    let idle_doc = bob.docs.api().import_namespace(Capability::Write(idle_secret.clone())).await.ok();
    let unknown_ns = NamespaceSecret::from_bytes(&rng.fill32()).id();
    if let Err(e) = doc.start_sync(vec![]).await {
        ctx.harness_error(format!("start_sync: {e:?}"));
        return;
    }
    let _ = alice_store.import_namespace(Capability::Write(secret.clone())).await;
    let _ = alice_store.open(ns, OpenOpts::default().sync()).await;
    for i in 0..rng.range(1, 3) {
        let data = format!("alice-{case}-{i}");
        let _ = alice_store.insert_local(ns, alice_author.id(), format!("a{i}").into_bytes().into(), iroh_blobs::Hash::new(data.as_bytes()), data.len() as u64).await;
    }
    ctx.eval();

    let mut sessions: Vec<Sess> = vec![];
    let mut accepted_total = 0usize;
    let mut bob_may_dial = false;
    let mut declined_not_found_idle = 0usize;
    let mut ambiguous = 0usize; // requests whose answer could not be read: allowed or not is unknown
    let mut declined_while_held = 0usize;
    let mut dropped_after_decline = 0usize;
    let mut next_id = 0;
    let steps = rng.range(4, 12);
    let mut violated = false;
    'hist: for _ in 0..steps {
        let held: Vec<usize> = sessions.iter().enumerate().filter(|(_, s)| matches!(s.st, St::Held(_))).map(|(i, _)| i).collect();
        let open_declined: Vec<usize> = sessions.iter().enumerate().filter(|(_, s)| matches!(s.st, St::Declined)).map(|(i, _)| i).collect();
        match rng.below(10) {
            0..=4 => {
                // ---- a request
                next_id += 1;
                let (mut s, a) = match dial(alice_ep, alice_store, &bob.addr, ns, next_id).await {
                    Ok(x) => x,
                    Err(e) => {
                        ctx.harness_error(format!("dial: {e:?}"));
                        break 'hist;
                    }
                };
                ctx.count("requests", 1);
                match a {
                    Answer::Sync(m) => {
                        trace.push(format!("request {} -> accepted{}", s.id, if held.is_empty() { "" } else { " WHILE A SESSION IS HELD" }));
                        accepted_total += 1;
                        ctx.count("requests_accepted", 1);
                        s.accepted = true;
                        s.st = St::Held(m);
                        if let Some(&h) = held.first() {
                            // does the earlier session still work? then two sessions are in progress at once
                            let first = sessions[h].id;
                            match step(&mut sessions[h], alice_store, ns, bob_id).await {
                                Ok(still) => {
                                    trace.push(format!("session {first}: bob answered the next message ({})", if still { "session goes on" } else { "session complete" }));
                                    viol11(ctx, case, "second-session-accepted-while-first-in-progress", json!({"first": first, "second": s.id, "trace": trace}));
                                    violated = true;
                                    sessions.push(s);
                                    break 'hist;
                                }
                                Err(e) => {
                                    trace.push(format!("session {first} had already died ({e})"));
                                    ctx.count("held_session_found_dead", 1);
                                    sessions[h].conn.close(1u32.into(), b"dead");
                                    sessions[h].st = St::Ended;
                                }
                            }
                        }
                        sessions.push(s);
                    }
                    Answer::Abort(r) => {
                        trace.push(format!("request {} -> declined {}", s.id, abort_name(r)));
                        ctx.count("requests_declined", 1);
                        if !held.is_empty() && r == 1 {
                            declined_while_held += 1;
                            ctx.count("requests_declined_while_a_session_is_held", 1);
                        }
                        if r != 1 {
                            viol11(ctx, case, "syncing-document-declined-with-other-reason", json!({"reason": abort_name(r), "trace": trace}));
                            violated = true;
                            break 'hist;
                        }
                        // what alice does with the declined connection
                        match rng.below(5) {
                            0 => {
                                end_orderly(&mut s).await;
                                trace.push("  orderly end".into());
                            }
                            1 => {
                                s.conn.close(1u32.into(), b"gone");
                                s.st = St::Ended;
                                dropped_after_decline += 1;
                                trace.push("  connection closed abruptly".into());
                            }
                            2 => {
                                let _ = s.send.reset(7u32.into());
                                s.conn.close(2u32.into(), b"reset");
                                s.st = St::Ended;
                                dropped_after_decline += 1;
                                trace.push("  stream reset, connection closed".into());
                            }
                            3 => {
                                let _ = s.recv.stop(3u32.into());
                                s.conn.close(3u32.into(), b"stop");
                                s.st = St::Ended;
                                dropped_after_decline += 1;
                                trace.push("  receive side stopped, connection closed".into());
                            }
                            _ => {
                                s.st = St::Declined; // stays open for a while
                                trace.push("  connection left open".into());
                            }
                        }
                        sessions.push(s);
                    }
                    Answer::Eof => {
                        // allowed, and bob had nothing to say (both sides hold the same set): a session
                        // that bob completed at once. A decline would have been an Abort frame.
                        trace.push(format!("request {} -> accepted and completed at once (nothing to exchange){}", s.id, if held.is_empty() { "" } else { " WHILE A SESSION IS HELD" }));
                        ctx.count("requests_accepted", 1);
                        ctx.count("requests_accepted_with_nothing_to_exchange", 1);
                        accepted_total += 1;
                        s.accepted = true;
                        if let Some(&h) = held.first() {
                            let first = sessions[h].id;
                            match step(&mut sessions[h], alice_store, ns, bob_id).await {
                                Ok(still) => {
                                    trace.push(format!("session {first}: bob answered the next message ({})", if still { "session goes on" } else { "session complete" }));
                                    viol11(ctx, case, "second-session-accepted-while-first-in-progress", json!({"first": first, "second": s.id, "trace": trace}));
                                    violated = true;
                                    sessions.push(s);
                                    break 'hist;
                                }
                                Err(e) => {
                                    trace.push(format!("session {first} had already died ({e})"));
                                    ctx.count("held_session_found_dead", 1);
                                    sessions[h].conn.close(1u32.into(), b"dead");
                                    sessions[h].st = St::Ended;
                                }
                            }
                        }
                        end_orderly(&mut s).await;
                        sessions.push(s);
                    }
                    Answer::Broken(e) => {
                        trace.push(format!("request {} -> {e}", s.id));
                        ctx.count("requests_broken", 1);
                        ambiguous += 1;
                        s.conn.close(0u32.into(), b"");
                        sessions.push(s);
                    }
                    Answer::Timeout => {
                        ctx.harness_error("no answer to a request within 20 s");
                        break 'hist;
                    }
                }
            }
            8 => {
                // ---- a request for a document that is not being synced: declined as not found,
                // whatever else is going on with this peer
                let (which, other) = if rng.chance(1, 2) { ("held but not synced", idle_secret.id()) } else { ("unknown", unknown_ns) };
                let r: anyhow::Result<Answer> = async {
                    let conn = tokio::time::timeout(Duration::from_secs(20), alice_ep.connect(bob.addr.clone(), iroh_docs::ALPN)).await??;
                    let (mut send, mut recv) = conn.open_bi().await?;
                    let zero = vec![0u8; 64];
                    let fp = crate::wire::RawMessage { parts: vec![crate::wire::RawPart::Fingerprint { x: zero.clone(), y: zero, fp: [7; 32] }] }.to_bytes();
                    send.write_all(&frame(&msg_init(other.as_bytes(), &fp))).await?;
                    let a = read_answer(&mut recv).await;
                    let _ = send.finish();
                    conn.close(0u32.into(), b"");
                    Ok(a)
                }
                .await;
                ctx.count("requests_for_documents_not_being_synced", 1);
                match r {
                    Ok(Answer::Abort(0)) => {
                        trace.push(format!("request for a document {which} -> declined NotFound"));
                        if which == "held but not synced" {
                            declined_not_found_idle += 1;
                        }
                    }
                    Ok(Answer::Abort(r)) => {
                        trace.push(format!("request for a document {which} -> declined {}", abort_name(r)));
                        viol11(ctx, case, "document-not-being-synced-declined-with-other-reason", json!({"which": which, "reason": abort_name(r), "trace": trace}));
                        violated = true;
                        break 'hist;
                    }
                    Ok(Answer::Sync(_)) | Ok(Answer::Eof) => {
                        trace.push(format!("request for a document {which} -> ACCEPTED"));
                        viol11(ctx, case, "request-for-document-not-being-synced-accepted", json!({"which": which, "trace": trace}));
                        violated = true;
                        break 'hist;
                    }
                    Ok(Answer::Broken(e)) => {
                        trace.push(format!("request for a document {which} -> {e}"));
                        ctx.count("requests_broken", 1);
                    }
                    Ok(Answer::Timeout) => {
                        ctx.harness_error("no answer to a request within 20 s");
                        break 'hist;
                    }
                    Err(e) => {
                        ctx.harness_error(format!("dial: {e:?}"));
                        break 'hist;
                    }
                }
            }
            5 if !held.is_empty() => {
                // ---- continue a held session by one message
                let h = *rng.pick(&held);
                let id = sessions[h].id;
                match step(&mut sessions[h], alice_store, ns, bob_id).await {
                    Ok(true) => trace.push(format!("session {id}: one more message, still held")),
                    Ok(false) => {
                        trace.push(format!("session {id}: complete"));
                        end_orderly(&mut sessions[h]).await;
                        ctx.count("sessions_completed", 1);
                    }
                    Err(e) => {
                        trace.push(format!("session {id}: broke ({e})"));
                        sessions[h].conn.close(1u32.into(), b"broken");
                        sessions[h].st = St::Ended;
                    }
                }
            }
            6 if !held.is_empty() => {
                // ---- a held session dies
                let h = *rng.pick(&held);
                let id = sessions[h].id;
                match rng.below(3) {
                    0 => {
                        sessions[h].conn.close(1u32.into(), b"gone");
                        trace.push(format!("session {id}: connection closed abruptly"));
                    }
                    1 => {
                        let _ = sessions[h].send.write_all(&[0, 0, 0, 3, 9, 9, 9]).await;
                        let _ = sessions[h].send.finish();
                        let _ = tokio::time::timeout(Duration::from_secs(5), sessions[h].recv.read_to_end(1 << 20)).await;
                        sessions[h].conn.close(0u32.into(), b"");
                        trace.push(format!("session {id}: garbage frame, then closed"));
                    }
                    _ => {
                        end_orderly(&mut sessions[h]).await;
                        trace.push(format!("session {id}: stream finished in the middle of the exchange"));
                    }
                }
                sessions[h].st = St::Ended;
                ctx.count("sessions_killed", 1);
            }
            7 if !open_declined.is_empty() => {
                let d = *rng.pick(&open_declined);
                let id = sessions[d].id;
                if rng.chance(1, 2) {
                    end_orderly(&mut sessions[d]).await;
                    trace.push(format!("declined request {id}: orderly end"));
                } else {
                    sessions[d].conn.close(1u32.into(), b"gone");
                    sessions[d].st = St::Ended;
                    dropped_after_decline += 1;
                    trace.push(format!("declined request {id}: connection closed abruptly"));
                }
            }
            9 if rng.chance(1, 2) => {
                // sharing the document or joining more peers: start_sync on a document already syncing
                let r = doc.start_sync(vec![]).await;
                // (bob then dials the peers stored for the document, alice among them after a
                // successful session; while that dial of his own is under way the slot is his)
                bob_may_dial = true;
                trace.push(format!("bob: start_sync again -> {}", r.is_ok()));
                ctx.count("start_sync_on_a_document_already_syncing", 1);
            }
            _ => {
                let ms = rng.range(1, 60) as u64;
                tokio::time::sleep(Duration::from_millis(ms)).await;
                trace.push(format!("pause {ms} ms"));
            }
        }
        let n_events = events.lock().unwrap().iter().filter(|e| e.0).count();
        if n_events > accepted_total + ambiguous {
            viol11(ctx, case, "end-of-session-reported-for-a-session-never-allowed", json!({"events": n_events, "accepted": accepted_total, "trace": trace}));
            violated = true;
            break 'hist;
        }
    }
    // ---- quiescence: alice ends everything; bob must report the end of every accepted session and then accept again
    if !violated && ctx.harness_errors.is_empty() {
        for s in sessions.iter_mut() {
            match s.st {
                St::Held(_) => {
                    if rng.chance(1, 2) {
                        s.conn.close(1u32.into(), b"gone");
                        s.st = St::Ended;
                    } else {
                        end_orderly(s).await;
                    }
                }
                St::Declined => end_orderly(s).await,
                St::Ended => {}
            }
        }
        trace.push("alice ended everything".into());
        let t = std::time::Instant::now();
        let mut reported = false;
        while t.elapsed() < Duration::from_secs(20) {
            let n = events.lock().unwrap().iter().filter(|e| e.0).count();
            if n > accepted_total + ambiguous {
                viol11(ctx, case, "end-of-session-reported-for-a-session-never-allowed", json!({"events": n, "accepted": accepted_total, "trace": trace}));
                violated = true;
                break;
            }
            if n >= accepted_total {
                reported = true;
                break;
            }
            tokio::time::sleep(Duration::from_millis(5)).await;
        }
        if !violated {
            if ambiguous > 0 {
                ctx.count("histories_with_an_unreadable_answer", 1);
            } else if !reported {
                ctx.count("end_of_session_events_missing_after_20s", 1);
                ctx.harness_error(format!("case {case}: bob reported {} ends for {accepted_total} accepted sessions within 20 s", events.lock().unwrap().iter().filter(|e| e.0).count()));
            } else {
                // the slot was freed before each event was sent: a request must be accepted now
                next_id += 1;
                match dial(alice_ep, alice_store, &bob.addr, ns, next_id).await {
                    Ok((mut s, a)) => {
                        ctx.count("probe_requests_at_quiescence", 1);
                        match a {
                            Answer::Sync(m) => {
                                trace.push("probe request -> accepted".into());
                                s.st = St::Held(m);
                                // run it to the end: a complete session over the real stack
                                let mut guard = 0;
                                loop {
                                    guard += 1;
                                    match step(&mut s, alice_store, ns, bob_id).await {
                                        Ok(true) if guard < 50 => continue,
                                        Ok(true) => break,
                                        Ok(false) => {
                                            ctx.count("sessions_completed", 1);
                                            break;
                                        }
                                        Err(e) => {
                                            ctx.count("probe_session_broke", 1);
                                            trace.push(format!("probe session broke: {e}"));
                                            break;
                                        }
                                    }
                                }
                                end_orderly(&mut s).await;
                            }
                            Answer::Abort(r) if bob_may_dial => {
                                // bob may have a dial of his own to alice in flight (she accepts no
                                // connections, so it ends by failing): the decline is then legitimate and the
                                // precondition of N3 does not hold. Bounded retry; giving up is inconclusive.
                                trace.push(format!("probe request -> declined {} (bob may be dialling)", abort_name(r)));
                                s.conn.close(0u32.into(), b"");
                                ctx.count("probe_declines_while_bob_may_be_dialling", 1);
                                let t = std::time::Instant::now();
                                let mut accepted = false;
                                while t.elapsed() < Duration::from_secs(30) && !accepted {
                                    tokio::time::sleep(Duration::from_millis(100)).await;
                                    next_id += 1;
                                    match dial(alice_ep, alice_store, &bob.addr, ns, next_id).await {
                                        Ok((mut s2, Answer::Sync(_))) | Ok((mut s2, Answer::Eof)) => {
                                            accepted = true;
                                            end_orderly(&mut s2).await;
                                        }
                                        Ok((s2, _)) => s2.conn.close(0u32.into(), b""),
                                        Err(_) => {}
                                    }
                                }
                                if !accepted {
                                    ctx.harness_error(format!("case {case}: requests still declined 30 s after a start_sync that may have made bob dial"));
                                }
                            }
                            Answer::Abort(r) => {
                                trace.push(format!("probe request -> declined {}", abort_name(r)));
                                viol11(ctx, case, "slot-still-busy-after-every-session-was-reported-finished", json!({"reason": abort_name(r), "accepted": accepted_total, "trace": trace}));
                                s.conn.close(0u32.into(), b"");
                            }
                            Answer::Timeout => ctx.harness_error("no answer to the probe request within 20 s"),
                            Answer::Eof => {
                                trace.push("probe request -> accepted (nothing to exchange)".into());
                                ctx.count("sessions_completed", 1);
                                end_orderly(&mut s).await;
                            }
                            Answer::Broken(_) => {
                                ctx.count("probe_without_answer", 1);
                                s.conn.close(0u32.into(), b"");
                            }
                        }
                    }
                    Err(e) => ctx.harness_error(format!("probe dial: {e:?}")),
                }
            }
        }
    } else {
        for s in sessions.iter_mut() {
            s.conn.close(0u32.into(), b"");
        }
    }
    // C10: requests for the document bob holds but does not sync were declined; a declined request
    // changes nothing in the store — in particular it does not make the stranger a stored sync peer
    if let Some(d) = &idle_doc {
        if declined_not_found_idle > 0 {
            // (give the live actor's bookkeeping of the declined connections a moment; observing
            // nothing proves nothing, observing a change is decisive)
            tokio::time::sleep(Duration::from_millis(20)).await;
            ctx.count("store_checks_after_declined_requests", 1);
            match d.get_sync_peers().await {
                Ok(Some(p)) if !p.is_empty() => {
                    viol10(ctx, case, "declined-request-changed-the-store:sync-peers", json!({"peers": p.len(), "declined_requests": declined_not_found_idle, "trace": trace}));
                }
                _ => {}
            }
            if let Ok(Some(_)) = d.get_one(iroh_docs::store::Query::all().include_empty()).await {
                viol10(ctx, case, "declined-request-changed-the-store:entries", json!({"trace": trace}));
            }
        }
    }
    drainer.abort();
    let _ = doc.leave().await;
    let _ = doc.close().await;
    let _ = bob.docs.api().drop_doc(ns).await;
    if let Some(d) = idle_doc {
        let _ = d.close().await;
        let _ = bob.docs.api().drop_doc(idle_secret.id()).await;
    }
    let _ = alice_store.close(ns).await;
    if declined_while_held > 0 {
        ctx.nontrivial(h64(format!("{trace:?}").as_bytes()));
    }
    if dropped_after_decline > 0 && declined_while_held > 0 {
        ctx.count("histories_with_a_dropped_decline_while_a_session_is_held", 1);
    }
    if ctx.want_sample() {
        ctx.sample(json!({"case": case, "trace": trace}));
    }
}
