//! C16 — removing a document erases it completely and only it; protected hash set is exact.

use std::collections::{BTreeMap, BTreeSet};

use iroh_docs::{
    store::{DownloadPolicy, FilterKind, Store},
    Capability, CapabilityKind, NamespaceId, NamespaceSecret,
};
use serde_json::json;

use crate::{
    ctx::Ctx,
    gen::{namespace_ending_in, Universe},
    model::E,
    rng::{h64, Rng},
    util::{dump, heads, new_store, offer_remote, Backend, Scratch},
    wire::RawEntry,
};

/// Everything observable about one document.
#[derive(Debug, Clone, PartialEq, Eq)]
pub struct DocObs {
    pub entries: Vec<Vec<u8>>, // postcard bytes of every entry, in scan order
    pub heads: BTreeMap<[u8; 32], u64>,
    pub peers: Option<Vec<[u8; 32]>>,
    pub policy: String,
    pub kind: Option<String>,
    pub loadable: bool,
    /// postcard bytes of the message a reconciliation session would open with (first key and the
    /// fingerprint of the whole replica); `None` when the document cannot be opened
    pub initial: Option<Vec<u8>>,
}

/// What a session opens with on a replica of `ns` that holds nothing.
pub fn initial_message_of_an_empty_replica(cap: iroh_docs::Capability) -> Option<Vec<u8>> {
    let mut s = Store::memory();
    let ns = cap.id();
    s.import_namespace(cap).ok()?;
    let m = s.open_replica(&ns).ok()?.sync_initial_message().ok()?;
    postcard::to_stdvec(&m).ok()
}

pub fn observe(store: &mut Store, ns: NamespaceId) -> anyhow::Result<DocObs> {
    let d = dump(store, ns)?;
    let h = heads(store, ns)?;
    let peers = store.get_sync_peers(&ns)?.map(|p| p.collect::<Vec<_>>());
    let policy = format!("{:?}", store.get_download_policy(&ns)?);
    let mut kind = None;
    for r in store.list_namespaces()? {
        let (id, k) = r?;
        if id == ns {
            kind = Some(format!("{k:?}"));
        }
    }
    let loadable = store.load_replica_info(&ns).is_ok();
    store.close_replica(ns);
    let initial = match store.open_replica(&ns) {
        Ok(mut r) => r.sync_initial_message().ok().and_then(|m| postcard::to_stdvec(&m).ok()),
        Err(_) => None,
    };
    store.close_replica(ns);
    Ok(DocObs {
        initial,
        entries: d.values().map(|e| postcard::to_stdvec(e).unwrap()).collect(),
        heads: h.into_iter().map(|(a, (t, _))| (a, t)).collect(),
        peers,
        policy,
        kind,
        loadable,
    })
}

fn hashes_of_all(store: &mut Store, docs: &[NamespaceId]) -> anyhow::Result<BTreeSet<[u8; 32]>> {
    let mut s = BTreeSet::new();
    for ns in docs {
        for e in dump(store, *ns)?.values() {
            s.insert(*e.content_hash().as_bytes());
        }
    }
    s.remove(iroh_blobs::Hash::EMPTY.as_bytes());
    Ok(s)
}

fn reported_hashes(store: &mut Store) -> anyhow::Result<BTreeSet<[u8; 32]>> {
    let mut s = BTreeSet::new();
    for h in store.content_hashes()? {
        s.insert(*h?.as_bytes());
    }
    s.remove(iroh_blobs::Hash::EMPTY.as_bytes());
    Ok(s)
}

enum Doc {
    Write(NamespaceSecret),
    ReadOnlyRaw([u8; 32]),
}
impl Doc {
    fn id(&self) -> NamespaceId {
        match self {
            Doc::Write(s) => s.id(),
            Doc::ReadOnlyRaw(b) => NamespaceId::from(b),
        }
    }
    fn capability(&self) -> Capability {
        match self {
            Doc::Write(s) => Capability::Write(s.clone()),
            Doc::ReadOnlyRaw(b) => Capability::Read(NamespaceId::from(b)),
        }
    }
}

fn fill(rng: &mut Rng, store: &mut Store, doc: &Doc, n: usize) {
    let id = doc.id();
    match doc {
        Doc::Write(s) => {
            let uni = Universe::with(s.clone(), 3);
            for e in uni.entries(rng, n, 3) {
                offer_remote(store, id, &e);
            }
        }
        Doc::ReadOnlyRaw(b) => {
            // entries cannot be validated for an id that is no public key: put them below the
            // validation layer (hook H3), which is where the table bounds matter
            let uni = Universe::with(crate::gen::namespace(9), 3);
            for e in uni.entries(rng, n, 3) {
                let mut raw = RawEntry::of(&e);
                raw.id[..32].copy_from_slice(b);
                if let Ok(e2) = raw.into_entry() {
                    let _ = iroh_docs::verif::si_entry_put(store, id, e2);
                }
            }
        }
    }
    if rng.chance(2, 3) {
        let f = vec![FilterKind::Prefix(rng.bytes(2).into()), FilterKind::Exact(rng.bytes(1).into())];
        let p = if rng.chance(1, 2) { DownloadPolicy::NothingExcept(f) } else { DownloadPolicy::EverythingExcept(f) };
        store.set_download_policy(&id, p).unwrap();
    }
    for _ in 0..rng.below(4) {
        store.register_useful_peer(id, rng.fill32()).unwrap();
    }
}

pub fn run(ctx: &mut Ctx) {
    if ctx.mode.as_deref() == Some("engine") {
        return super::c16engine::run(ctx);
    }
    let scratch = Scratch::new();
    // searched once per shard: neighbours in byte order, ids ending in FF
    let ff1 = namespace_ending_in(0xFF, 1);
    let ff2 = namespace_ending_in(0xFF, 2);
    let z0 = namespace_ending_in(0x00, 3);
    for case in ctx.cases(800, 60_000) {
        let mut rng = ctx.rng(case);
        if case % 8 == 7 {
            actor_case(ctx, case, &mut rng);
            continue;
        }
        let backend = if rng.chance(1, 6) { Backend::File } else { Backend::Memory };
        let (mut store, db_path) = new_store(backend, &scratch);
        // documents: sorted neighbours
        let mut docs: Vec<Doc> = vec![];
        let mut raw_ff = ff1.id().to_bytes();
        raw_ff[31] = 0xFF;
        raw_ff[30] = 0xFF;
        let pool: Vec<Doc> = vec![
            Doc::Write(ff1.clone()),
            Doc::Write(ff2.clone()),
            Doc::Write(z0.clone()),
            Doc::Write(crate::gen::namespace(1)),
            Doc::Write(crate::gen::namespace(2)),
            Doc::ReadOnlyRaw([0u8; 32]),
            Doc::ReadOnlyRaw([0xFF; 32]),
            Doc::ReadOnlyRaw(raw_ff),
            Doc::ReadOnlyRaw({
                // right after ff1's id in byte order
                let mut b = ff1.id().to_bytes();
                for i in (0..32).rev() {
                    if b[i] != 0xFF {
                        b[i] += 1;
                        break;
                    }
                    b[i] = 0;
                }
                b
            }),
        ];
        let mut idx: Vec<usize> = (0..pool.len()).collect();
        rng.shuffle(&mut idx);
        let n_docs = rng.range(3, 5);
        let mut pool: Vec<Option<Doc>> = pool.into_iter().map(Some).collect();
        for i in idx.into_iter().take(n_docs) {
            docs.push(pool[i].take().unwrap());
        }
        for d in &docs {
            store.import_namespace(d.capability()).unwrap();
            let n = rng.range(1, 8);
            fill(&mut rng, &mut store, d, n);
        }
        let ids: Vec<NamespaceId> = docs.iter().map(|d| d.id()).collect();
        ctx.eval();
        let mut trace = vec![format!("docs {:?}", ids.iter().map(|i| hex::encode(&i.as_bytes()[28..])).collect::<Vec<_>>())];
        let mut present: Vec<bool> = vec![true; docs.len()];
        let steps = rng.range(2, 8);
        let mut removed_any = false;
        for step in 0..steps {
            // snapshot of everything
            let mut before = vec![];
            for id in &ids {
                match observe(&mut store, *id) {
                    Ok(o) => before.push(o),
                    Err(e) => {
                        ctx.violation(case, "observe-failed", json!({"err": format!("{e:?}"), "trace": trace}));
                        return;
                    }
                }
            }
            let t = rng.below(docs.len());
            let action = rng.below(4);
            let mut expect_changed: Option<usize> = None;
            match action {
                0 | 1 if present[t] => {
                    // removal, possibly while open
                    let open = rng.chance(1, 3);
                    if open {
                        let _ = store.load_replica_info(&ids[t]);
                    }
                    // On a file: the removal may be cut by the age-based commit at any of its store
                    // accesses and the process may die right there. The image taken at that instant
                    // must show the document either as it was or not at all, and the others untouched.
                    let crash_at = match (&db_path, open) {
                        (Some(db), false) if rng.chance(1, 2) => {
                            let _ = store.flush();
                            let start = iroh_docs::verif::store_accesses();
                            let p = rng.below(5);
                            let img = scratch.path("c16img");
                            let (db2, img2) = (db.clone(), img.clone());
                            iroh_docs::verif::set_access_callback(Some(Box::new(move |n| {
                                if n == start + p {
                                    let _ = std::fs::copy(&db2, &img2);
                                }
                            })));
                            iroh_docs::verif::age_transaction_at(start + p);
                            Some((img, p))
                        }
                        _ => None,
                    };
                    let res = store.remove_replica(&ids[t]);
                    if let Some((img, p)) = crash_at {
                        iroh_docs::verif::set_access_callback(None);
                        iroh_docs::verif::age_transaction_at(usize::MAX);
                        if img.exists() {
                            ctx.count("crash_images_inside_a_removal", 1);
                            match Store::persistent(&img) {
                                Err(e) => {
                                    ctx.violation(case, "crash-image-of-a-removal-does-not-open", json!({"access": p, "err": format!("{e:?}"), "trace": trace}));
                                    return;
                                }
                                Ok(mut s2) => {
                                    for (i, id) in ids.iter().enumerate() {
                                        let Ok(o) = observe(&mut s2, *id) else { continue };
                                        let gone = o.entries.is_empty() && o.heads.is_empty() && o.peers.is_none() && o.kind.is_none() && !o.loadable && o.policy == format!("{:?}", DownloadPolicy::default());
                                        let ok = o == before[i] || (i == t && gone);
                                        if !ok {
                                            let mut left = vec![];
                                            if o.entries != before[i].entries { left.push(if o.entries.is_empty() { "entries-gone" } else { "entries-differ" }); }
                                            if o.heads != before[i].heads { left.push(if o.heads.is_empty() { "heads-gone" } else { "heads-differ" }); }
                                            if o.peers != before[i].peers { left.push("peers"); }
                                            if o.policy != before[i].policy { left.push("policy"); }
                                            if o.kind != before[i].kind { left.push("capability"); }
                                            if o.initial != before[i].initial { left.push("session-opening-message"); }
                                            let sig = if i == t { format!("crash-inside-removal-leaves-part-of-the-document:{}", left.join("+")) } else { format!("crash-inside-removal-changes-another-document:{}", left.join("+")) };
                                            ctx.violation(case, &sig, json!({"doc": i, "removed": t, "store_access_of_the_removal": p, "trace": trace}));
                                            return;
                                        }
                                    }
                                }
                            }
                            let _ = std::fs::remove_file(&img);
                        }
                    }
                    trace.push(format!("remove doc{t} open={open} -> {:?}", res.as_ref().map_err(|e| e.to_string())));
                    if open {
                        ctx.count("removals_attempted_while_open", 1);
                        if res.is_ok() {
                            ctx.violation(case, "removed-while-open", json!({"doc": t, "trace": trace}));
                        }
                        store.close_replica(ids[t]);
                        // nothing may have changed (checked below: expect_changed stays None)
                    } else {
                        ctx.count("removals", 1);
                        if let Err(e) = res {
                            ctx.violation(case, "removal-of-closed-document-failed", json!({"doc": t, "err": format!("{e:?}"), "trace": trace}));
                        }
                        present[t] = false;
                        removed_any = true;
                        expect_changed = Some(t);
                        // Half of the time a late operation for the document arrives right behind the
                        // removal, before anything was read (reads commit): it is refused, and the
                        // refusal must not undo the removal it shares a write batch with (added
                        // after seeded change agent-C16-8).
                        if rng.chance(1, 2) {
                            let r1 = store.register_useful_peer(ids[t], rng.fill32());
                            let r2 = store.set_download_policy(&ids[t], DownloadPolicy::default());
                            trace.push(format!("late operations right behind the removal of doc{t}: register peer -> {}, set policy -> {}", r1.is_ok(), r2.is_ok()));
                            ctx.count("late_operations_in_the_batch_of_the_removal", 1);
                            if r1.is_ok() || r2.is_ok() {
                                ctx.violation(case, "operation-on-removed-document-accepted", json!({"doc": t, "register_peer": r1.is_ok(), "set_policy": r2.is_ok(), "trace": trace}));
                                return;
                            }
                        }
                        // once removed nothing of it can be observed
                        match observe(&mut store, ids[t]) {
                            Ok(o) => {
                                let mut left = vec![];
                                if !o.entries.is_empty() { left.push("entries"); }
                                if !o.heads.is_empty() { left.push("heads"); }
                                if o.peers.is_some() { left.push("peers"); }
                                if o.policy != format!("{:?}", DownloadPolicy::default()) { left.push("policy"); }
                                if o.kind.is_some() { left.push("capability"); }
                                if o.loadable { left.push("loadable"); }
                                if !left.is_empty() {
                                    ctx.violation(case, &format!("removed-document-still-shows:{}", left.join("+")), json!({"doc": t, "trace": trace}));
                                }
                            }
                            Err(e) => ctx.violation(case, "observe-failed", json!({"err": format!("{e:?}")})),
                        }
                    }
                }
                2 if !present[t] => {
                    store.import_namespace(docs[t].capability()).unwrap();
                    present[t] = true;
                    expect_changed = Some(t);
                    trace.push(format!("re-create doc{t}"));
                    ctx.count("recreations", 1);
                    match observe(&mut store, ids[t]) {
                        Ok(o) => {
                            // what a session would open with: that of a replica holding nothing
                            let fresh = initial_message_of_an_empty_replica(docs[t].capability());
                            if o.initial != fresh {
                                ctx.violation(case, "re-created-document-opens-sessions-with-a-stale-fingerprint", json!({"doc": t, "trace": trace}));
                            }
                            if !o.entries.is_empty() || !o.heads.is_empty() || o.peers.is_some()
                                || o.policy != format!("{:?}", DownloadPolicy::default())
                            {
                                ctx.violation(case, "re-created-document-not-empty", json!({"doc": t, "entries": o.entries.len(), "heads": o.heads.len(), "peers": format!("{:?}", o.peers), "policy": o.policy, "trace": trace}));
                            }
                            let want_kind = format!("{:?}", match docs[t] { Doc::Write(_) => CapabilityKind::Write, _ => CapabilityKind::Read });
                            if o.kind.as_deref() != Some(&want_kind) {
                                ctx.violation(case, "re-created-document-wrong-capability", json!({"doc": t, "kind": o.kind}));
                            }
                        }
                        Err(e) => ctx.violation(case, "observe-failed", json!({"err": format!("{e:?}")})),
                    }
                }
                _ if !present[t] => {
                    // operations that arrive late for a removed document (a sync that was still
                    // running registers its peer, a client sets a policy): they must be refused and
                    // must not bring anything of the document back
                    let r1 = store.register_useful_peer(ids[t], rng.fill32());
                    let r2 = store.set_download_policy(&ids[t], DownloadPolicy::NothingExcept(vec![FilterKind::Exact(rng.bytes(1).into())]));
                    let r3 = store.open_replica(&ids[t]).map(|_| ());
                    store.close_replica(ids[t]);
                    trace.push(format!("late operations on removed doc{t}: register peer -> {}, set policy -> {}, open -> {}", r1.is_ok(), r2.is_ok(), r3.is_ok()));
                    ctx.count("late_operations_on_removed_document", 1);
                    if r1.is_ok() || r2.is_ok() || r3.is_ok() {
                        ctx.violation(case, "operation-on-removed-document-accepted", json!({"doc": t, "register_peer": r1.is_ok(), "set_policy": r2.is_ok(), "open": r3.is_ok(), "trace": trace}));
                        return;
                    }
                    match observe(&mut store, ids[t]) {
                        Ok(o) => {
                            let mut left = vec![];
                            if !o.entries.is_empty() { left.push("entries"); }
                            if !o.heads.is_empty() { left.push("heads"); }
                            if o.peers.is_some() { left.push("peers"); }
                            if o.policy != format!("{:?}", DownloadPolicy::default()) { left.push("policy"); }
                            if o.kind.is_some() { left.push("capability"); }
                            if !left.is_empty() {
                                ctx.violation(case, &format!("removed-document-still-shows:{}", left.join("+")), json!({"doc": t, "trace": trace}));
                                return;
                            }
                        }
                        Err(e) => ctx.violation(case, "observe-failed", json!({"err": format!("{e:?}")})),
                    }
                }
                _ if present[t] => {
                    let n = rng.range(1, 4);
                    fill(&mut rng, &mut store, &docs[t], n);
                    expect_changed = Some(t);
                    trace.push(format!("write to doc{t}"));
                    // One write in three is followed by an entry from a hostile writer of this document
                    // (added after seeded change agent-C16-10): it arrives for doc t, is signed with doc
                    // t's key, and names ANOTHER document of the store - a live one or a removed one.
                    // Whatever doc t makes of it, the document it names is not touched by it.
                    if let (Doc::Write(secret), true) = (&docs[t], rng.chance(1, 3)) {
                        let u = (t + 1 + rng.below(ids.len() - 1)) % ids.len();
                        let author = crate::gen::author(rng.below(3) as u8);
                        let (h, l) = crate::gen::content(rng.below(4));
                        let honest = iroh_docs::SignedEntry::from_parts(secret, &author, &rng.bytes(2), iroh_docs::Record::new(h, l, crate::gen::t0() + 50));
                        let mut raw = crate::wire::RawEntry::of(&honest);
                        raw.id[..32].copy_from_slice(ids[u].as_bytes());
                        raw.sign(secret, &author);
                        if let Ok(forged) = raw.into_entry() {
                            if let Ok(mut r) = store.open_replica(&ids[t]) {
                                let res = crate::util::block_on(r.insert_remote_entry(forged, [7u8; 32], iroh_docs::ContentStatus::Complete));
                                trace.push(format!("entry naming doc{u} (present: {}), signed with the key of doc{t}, arrives for doc{t} -> {}", present[u], res.is_ok()));
                                ctx.count("entries_naming_another_document_under_this_documents_key", 1);
                            }
                            store.close_replica(ids[t]);
                        }
                    }
                }
                _ => continue,
            }
            // every other document byte-for-byte unaffected
            for (i, id) in ids.iter().enumerate() {
                if Some(i) == expect_changed {
                    continue;
                }
                match observe(&mut store, *id) {
                    Ok(o) => {
                        ctx.count("isolation_checks", 1);
                        if o != before[i] {
                            let mut what = vec![];
                            if o.entries != before[i].entries { what.push("entries"); }
                            if o.heads != before[i].heads { what.push("heads"); }
                            if o.peers != before[i].peers { what.push("peers"); }
                            if o.policy != before[i].policy { what.push("policy"); }
                            if o.kind != before[i].kind || o.loadable != before[i].loadable { what.push("capability"); }
                            if o.initial != before[i].initial { what.push("session-opening-message"); }
                            ctx.violation(case, &format!("other-document-changed:{}", what.join("+")), json!({"doc": i, "step": step, "trace": trace,
                                "entries_before": before[i].entries.len(), "entries_after": o.entries.len()}));
                        }
                    }
                    Err(e) => ctx.violation(case, "observe-failed", json!({"err": format!("{e:?}")})),
                }
            }
            // protected hashes exact
            match (reported_hashes(&mut store), hashes_of_all(&mut store, &ids)) {
                (Ok(r), Ok(w)) => {
                    ctx.count("hash_set_checks", 1);
                    if r != w {
                        let sig = if r.difference(&w).next().is_some() { "protected-hashes-include-hash-not-held" } else { "protected-hashes-miss-held-hash" };
                        ctx.violation(case, sig, json!({"reported": r.len(), "held": w.len(), "trace": trace}));
                    }
                }
                (a, b) => ctx.violation(case, "observe-failed", json!({"err": format!("{:?} {:?}", a.err(), b.err())})),
            }
        }
        if removed_any {
            ctx.nontrivial(h64(format!("{:?}", trace).as_bytes()));
        }
        if ctx.want_sample() {
            ctx.sample(json!({"case": case, "trace": trace}));
        }
        let _ = E::of; // keep import used
    }
}

/// The same rule through the store actor: removal is refused while another handle is held, and
/// removes exactly the named document otherwise.
fn actor_case(ctx: &mut Ctx, case: u64, rng: &mut Rng) {
    use iroh_docs::actor::OpenOpts;
    let docs = [Doc::Write(crate::gen::namespace(1)), Doc::Write(crate::gen::namespace(2))];
    let mut store = Store::memory();
    for d in &docs {
        store.import_namespace(d.capability()).unwrap();
        let n = rng.range(1, 6);
        fill(rng, &mut store, d, n);
    }
    let ids = [docs[0].id(), docs[1].id()];
    let before: Vec<DocObs> = ids.iter().map(|i| observe(&mut store, *i).unwrap()).collect();
    let handles = rng.range(1, 3);
    let closes_before_drop = rng.below(handles);
    let rt = crate::act::runtime(1);
    let (refused, store_back) = rt.block_on(async {
        let h = crate::act::spawn(store);
        for _ in 0..handles {
            let _ = h.open(ids[0], OpenOpts::default()).await;
        }
        for _ in 0..closes_before_drop {
            let _ = h.close(ids[0]).await;
        }
        let r = h.drop_replica(ids[0]).await;
        (r.is_err(), h.shutdown().await.ok())
    });
    ctx.eval();
    ctx.count("actor_removals", 1);
    let Some(mut store) = store_back else {
        ctx.violation(case, "shutdown-did-not-return-the-store", json!({}));
        return;
    };
    // drop_replica releases one handle itself: refused iff more than one handle was still held
    let still_held = handles - closes_before_drop;
    let want_refused = still_held > 1;
    let detail = json!({"handles_opened": handles, "closed_before": closes_before_drop, "refused": refused});
    if refused != want_refused {
        ctx.violation(case, if refused { "removal-of-closed-document-failed" } else { "removed-while-open" }, detail);
        return;
    }
    let after: Vec<DocObs> = ids.iter().map(|i| observe(&mut store, *i).unwrap()).collect();
    if after[1] != before[1] {
        ctx.violation(case, "other-document-changed:actor", detail);
        return;
    }
    if refused {
        if after[0] != before[0] {
            ctx.violation(case, "refused-removal-changed-the-document", detail);
        }
    } else {
        if !after[0].entries.is_empty() || !after[0].heads.is_empty() || after[0].peers.is_some() || after[0].kind.is_some() || after[0].loadable {
            ctx.violation(case, "removed-document-still-shows:actor", detail);
        }
        ctx.nontrivial(h64(format!("actor{case}{handles}{closes_before_drop}").as_bytes()));
    }
}
