//! Mode `stack` — a swarm of complete docs nodes on loopback (engine, live actor, real gossip, real
//! QUIC sessions dialled by `connect_and_sync`, blob stores serving content to each other).
//!
//! Everything the other modes drive by hand happens here by itself: a local write is broadcast by the
//! live actor, received by the gossip loop of the others and applied through the remote-insert path;
//! neighbours coming up, sync reports and direct joins make the live actors dial each other; content
//! is fetched by the downloader. The harness only uses the client API (`Doc`), the clock hook (so
//! that it knows — and collides — the timestamps of the writes) and the event subscription.
//!
//! The workload serves several properties; each run judges only its own (`ctx.prop`):
//!  * **C04** — at every observation no node holds an entry that no node wrote; once writing has
//!    stopped and every node syncs again, rounds of sessions over a connected set of pairs are run
//!    to completion (a session is complete when *both* ends reported `SyncFinished` with success):
//!    the dumps must become equal to the merge of all accepted writes within a number of rounds that
//!    no correct implementation can exceed (every round that does not end converged moves at least
//!    one entry, and there are only writes × nodes such moves).
//!  * **C12** — per node, on its event subscription: exactly one `InsertLocal` per accepted local
//!    write, at most one `InsertRemote` per entry, each naming an entry that some node wrote and a
//!    sender that is another node of the swarm, and exactly one for every entry of the final dump that
//!    the node did not write itself. Missing events are judged behind a *fence*: a last local write
//!    whose own event has arrived on the same ordered channel.
//!  * **C10** — the `SyncFinished` pair of a session that succeeded on both sides mirrors its
//!    counts (judged only when the sessions of a directed pair can be matched one to one).
//!  * **C15** — a node whose policy does not select a key never holds the content of an entry at
//!    that key that another node wrote.
//! Time never decides a verdict: events that do not arrive within the (generous) waits make the
//! history inconclusive — counted, and a harness error if it happens repeatedly.

use std::{
    collections::{BTreeMap, BTreeSet},
    sync::{Arc, Mutex},
    time::Duration,
};

use iroh::{endpoint::presets, protocol::Router, Endpoint, EndpointAddr, PublicKey, RelayMode, SecretKey};
use iroh_docs::{
    api::{
        protocol::{AddrInfoOptions, ShareMode},
        Doc,
    },
    engine::{LiveEvent, Origin},
    protocol::Docs,
    store::{DownloadPolicy, FilterKind, Query},
    AuthorId, DocTicket,
};
use iroh_gossip::net::Gossip;
use n0_future::StreamExt;
use serde_json::json;

use crate::{
    ctx::Ctx,
    gen::ALPHABET,
    model::{is_prefix, E},
    rng::{h64, Rng},
};

pub struct SNode {
    pub ep: Endpoint,
    pub docs: Docs,
    pub blobs: iroh_blobs::api::Store,
    pub router: Router,
    pub author: AuthorId,
    pub addr: EndpointAddr,
    pub id: PublicKey,
}

pub async fn make_node(seed: u8) -> anyhow::Result<SNode> {
    let sk = SecretKey::from_bytes(&[seed; 32]);
    let ep = Endpoint::builder(presets::Minimal).secret_key(sk).relay_mode(RelayMode::Disabled).bind().await?;
    let gossip = Gossip::builder().spawn(ep.clone());
    let blobs = iroh_blobs::store::mem::MemStore::new();
    let blobs: iroh_blobs::api::Store = (*blobs).clone();
    let docs = Docs::memory().spawn(ep.clone(), blobs.clone(), gossip.clone()).await?;
    let router = Router::builder(ep.clone())
        .accept(iroh_blobs::ALPN, iroh_blobs::BlobsProtocol::new(&blobs, None))
        .accept(iroh_docs::ALPN, docs.clone())
        .accept(iroh_gossip::ALPN, gossip)
        .spawn();
    let author = docs.api().author_create().await?;
    let addr = ep.addr();
    let id = ep.id();
    Ok(SNode { ep, docs, blobs, router, author, addr, id })
}

/// Closed form of the replica specification (DESIGN §2.2) over plain entries.
fn merge(all: &[E]) -> BTreeSet<E> {
    let mut out = BTreeSet::new();
    for (i, e) in all.iter().enumerate() {
        let mut kept = true;
        for (j, x) in all.iter().enumerate() {
            if i == j || x.author != e.author || !is_prefix(&x.key, &e.key) {
                continue;
            }
            if x.key == e.key {
                if x.value() > e.value() {
                    kept = false;
                }
            } else if x.value() >= e.value() {
                kept = false;
            }
            if !kept {
                break;
            }
        }
        if kept {
            out.insert(e.clone());
        }
    }
    out
}

fn plain(e: &iroh_docs::Entry) -> E {
    E { author: e.author().to_bytes(), key: e.key().to_vec(), ts: e.timestamp(), hash: *e.content_hash().as_bytes(), len: e.content_len() }
}

struct Member {
    doc: Doc,
    events: Arc<Mutex<Vec<LiveEvent>>>,
    drain: tokio::task::JoinHandle<()>,
    syncing: bool,
    policy: Option<DownloadPolicy>,
}

fn spawn_drain<S>(stream: S) -> (Arc<Mutex<Vec<LiveEvent>>>, tokio::task::JoinHandle<()>)
where
    S: n0_future::Stream<Item = anyhow::Result<LiveEvent>> + Send + 'static,
{
    let events = Arc::new(Mutex::new(Vec::new()));
    let ev2 = events.clone();
    let h = tokio::spawn(async move {
        tokio::pin!(stream);
        while let Some(ev) = stream.next().await {
            if let Ok(ev) = ev {
                ev2.lock().unwrap().push(ev);
            }
        }
    });
    (events, h)
}

async fn dump(doc: &Doc) -> anyhow::Result<BTreeSet<E>> {
    let st = doc.get_many(Query::all().include_empty()).await?;
    tokio::pin!(st);
    let mut s = BTreeSet::new();
    while let Some(e) = st.next().await {
        s.insert(plain(&e?));
    }
    Ok(s)
}

fn judge(ctx: &Ctx, prop: &str) -> bool {
    ctx.prop == prop
}

pub fn run(ctx: &mut Ctx) {
    let rt = crate::act::runtime(3);
    rt.block_on(async {
        let base = 60 + (ctx.shard as u8) * 5;
        let mut nodes = vec![];
        // node ids in both orders relative to the creator across shards
        let seeds: [u8; 3] = if ctx.shard % 2 == 0 { [base, base + 1, base + 2] } else { [base + 2, base, base + 1] };
        for s in seeds {
            match make_node(s).await {
                Ok(n) => nodes.push(n),
                Err(e) => {
                    ctx.harness_error(format!("cannot create a docs node: {e:?}"));
                    return;
                }
            }
        }
        let mut inconclusive_in_a_row = 0;
        for case in ctx.cases(60, 20_000) {
            let mut rng = ctx.rng(case);
            let r = tokio::time::timeout(Duration::from_secs(240), one(ctx, case, &mut rng, &nodes)).await;
            iroh_docs::verif::set_clock(0);
            match r {
                Err(_) => {
                    ctx.harness_error("history did not finish within 240 s");
                    break;
                }
                Ok(false) => {
                    inconclusive_in_a_row += 1;
                    if inconclusive_in_a_row >= 3 {
                        ctx.harness_error("three histories in a row were inconclusive (events or sessions missing)");
                        break;
                    }
                }
                Ok(true) => inconclusive_in_a_row = 0,
            }
            if !ctx.harness_errors.is_empty() {
                break;
            }
        }
        for n in nodes {
            let _ = n.router.shutdown().await;
            n.ep.close().await;
        }
    });
}

fn sync_events_since(ev: &Arc<Mutex<Vec<LiveEvent>>>, mark: usize, peer: &PublicKey) -> Vec<(bool, usize, usize, bool)> {
    // (ok, received, sent, we connected)
    ev.lock()
        .unwrap()
        .iter()
        .skip(mark)
        .filter_map(|e| match e {
            LiveEvent::SyncFinished(s) if &s.peer == peer => {
                let connect = matches!(s.origin, Origin::Connect(_));
                Some(match &s.result {
                    Ok(d) => (true, d.entries_received, d.entries_sent, connect),
                    Err(_) => (false, 0, 0, connect),
                })
            }
            _ => None,
        })
        .collect()
}

/// One history. Returns false when it was inconclusive.
async fn one(ctx: &mut Ctx, case: u64, rng: &mut Rng, nodes: &[SNode]) -> bool {
    let n = if rng.chance(1, 3) { 2 } else { 3 };
    let t0 = (std::time::SystemTime::now().duration_since(std::time::UNIX_EPOCH).unwrap().as_micros() as u64) - 3_600_000_000;
    let ids: Vec<PublicKey> = nodes.iter().map(|x| x.id).collect();
    let mut trace: Vec<String> = vec![];
    macro_rules! bail_h {
        ($($a:tt)*) => {{ ctx.harness_error(format!("case {case}: {} (trace {:?})", format!($($a)*), trace)); return false; }};
    }

    // ---- the creator
    let doc0 = match nodes[0].docs.create().await {
        Ok(d) => d,
        Err(e) => bail_h!("create: {e:?}"),
    };
    let st = match doc0.subscribe().await {
        Ok(s) => s,
        Err(e) => bail_h!("subscribe: {e:?}"),
    };
    let (ev, h) = spawn_drain(st);
    let mut members: Vec<Option<Member>> = (0..n).map(|_| None).collect();
    members[0] = Some(Member { doc: doc0, events: ev, drain: h, syncing: false, policy: None });
    // the creator starts syncing when it hands out its first ticket

    let mut written: Vec<(usize, E)> = vec![]; // accepted local writes
    let mut contents: BTreeMap<[u8; 32], usize> = BTreeMap::new(); // content hash -> node that wrote it
    let mut last_value: BTreeMap<(usize, Vec<u8>), Vec<u8>> = BTreeMap::new();
    let mut left_once = false;
    let mut ever_left = vec![false; n];

    async fn join(nodes: &[SNode], members: &mut [Option<Member>], who: usize, via: usize, rng: &mut Rng, trace: &mut Vec<String>) -> anyhow::Result<()> {
        let ticket: DocTicket = members[via].as_ref().unwrap().doc.share(ShareMode::Write, AddrInfoOptions::RelayAndAddresses).await?;
        members[via].as_mut().unwrap().syncing = true;
        let DocTicket { capability, nodes: peers } = ticket;
        let doc = nodes[who].docs.import_namespace(capability).await?;
        // one joiner in three only wants part of the content
        let policy = match rng.below(6) {
            0 => Some(DownloadPolicy::NothingExcept(vec![FilterKind::Prefix(vec![*rng.pick(&ALPHABET)].into())])),
            1 => Some(DownloadPolicy::EverythingExcept(vec![FilterKind::Prefix(vec![*rng.pick(&ALPHABET)].into())])),
            _ => None,
        };
        if let Some(p) = &policy {
            doc.set_download_policy(p.clone()).await?;
        }
        let st = doc.subscribe().await?;
        let (events, drain) = spawn_drain(st);
        doc.start_sync(peers).await?;
        trace.push(format!("node{who} joins via node{via} policy {policy:?}"));
        members[who] = Some(Member { doc, events, drain, syncing: true, policy });
        Ok(())
    }

    let steps = rng.range(6, 18);
    let mut next_join = 1usize;
    // most histories start with the second node already in
    if rng.chance(2, 3) {
        if let Err(e) = join(nodes, &mut members, 1, 0, rng, &mut trace).await {
            bail_h!("join: {e:?}");
        }
        next_join = 2;
    }
    for step in 0..steps {
        let joined: Vec<usize> = (0..n).filter(|i| members[*i].is_some()).collect();
        let roll = rng.below(100);
        if roll < 50 {
            // a local write; the clock hook fixes its timestamp (pool of eight values: ties and going back)
            let i = *rng.pick(&joined);
            let m = members[i].as_ref().unwrap();
            let key: Vec<u8> = (0..rng.range(0, 3)).map(|_| *rng.pick(&ALPHABET[..4])).collect();
            let ts = t0 + rng.below(8) as u64;
            // One write in five repeats the content the same node last wrote at this key, and one in
            // eight is followed by a write below the key and the same content at the key once more
            // (added after seeded change agent-C04-9): an accepted write is a new record, whatever it
            // carries — it wins by its timestamp and prunes what lies below it.
            let value = match last_value.get(&(i, key.clone())) {
                Some(v) if rng.chance(1, 5) => {
                    ctx.count("writes_repeating_the_content_of_the_key", 1);
                    v.clone()
                }
                _ => format!("stack-{}-{}-{case}-{step}", ctx.seed, ctx.shard).into_bytes(),
            };
            let mut todo = vec![(key.clone(), value.clone(), ts)];
            if key.len() < 3 && rng.chance(1, 8) {
                let mut child = key.clone();
                child.push(*rng.pick(&ALPHABET[..4]));
                todo.push((child, format!("stack-{}-{}-{case}-{step}-below", ctx.seed, ctx.shard).into_bytes(), t0 + rng.below(8) as u64));
                todo.push((key.clone(), value.clone(), t0 + rng.below(8) as u64));
                ctx.count("writes_repeating_the_content_of_the_key", 1);
            }
            for (key, value, ts) in todo {
                last_value.insert((i, key.clone()), value.clone());
                iroh_docs::verif::set_clock(ts);
                let r = m.doc.set_bytes(nodes[i].author, key.clone(), value.clone()).await;
                trace.push(format!("node{i}: set {}@{} -> {}", hex::encode(&key), ts - t0, r.is_ok()));
                if let Ok(hash) = r {
                    let e = E { author: nodes[i].author.to_bytes(), key, ts, hash: *hash.as_bytes(), len: value.len() as u64 };
                    if *blake3::hash(&value).as_bytes() != e.hash {
                        bail_h!("set_bytes returned a hash that is not the hash of the value");
                    }
                    contents.insert(e.hash, i);
                    written.push((i, e));
                }
            }
        } else if roll < 62 {
            let i = *rng.pick(&joined);
            let m = members[i].as_ref().unwrap();
            let key: Vec<u8> = (0..rng.range(0, 2)).map(|_| *rng.pick(&ALPHABET[..4])).collect();
            let ts = t0 + rng.below(8) as u64;
            iroh_docs::verif::set_clock(ts);
            let r = m.doc.del(nodes[i].author, key.clone()).await;
            trace.push(format!("node{i}: del {}@{} -> {:?}", hex::encode(&key), ts - t0, r.as_ref().ok()));
            if r.is_ok() {
                written.push((i, E { author: nodes[i].author.to_bytes(), key, ts, hash: *iroh_blobs::Hash::EMPTY.as_bytes(), len: 0 }));
            }
        } else if roll < 74 {
            if next_join < n {
                let syncing: Vec<usize> = joined.iter().copied().filter(|i| members[*i].as_ref().unwrap().syncing || *i == 0).collect();
                let via = *rng.pick(&syncing);
                if let Err(e) = join(nodes, &mut members, next_join, via, rng, &mut trace).await {
                    bail_h!("join: {e:?}");
                }
                next_join += 1;
            }
        } else if roll < 82 {
            let i = *rng.pick(&joined);
            let m = members[i].as_mut().unwrap();
            if m.syncing {
                if let Err(e) = m.doc.leave().await {
                    bail_h!("leave: {e:?}");
                }
                m.syncing = false;
                left_once = true;
                ever_left[i] = true;
                trace.push(format!("node{i} leaves"));
            }
        } else if roll < 88 {
            let i = *rng.pick(&joined);
            let others: Vec<usize> = joined.iter().copied().filter(|j| *j != i).collect();
            if !members[i].as_ref().unwrap().syncing && !others.is_empty() {
                let j = *rng.pick(&others);
                if let Err(e) = members[i].as_ref().unwrap().doc.start_sync(vec![nodes[j].addr.clone()]).await {
                    bail_h!("start_sync: {e:?}");
                }
                members[i].as_mut().unwrap().syncing = true;
                trace.push(format!("node{i} rejoins via node{j}"));
            }
        } else {
            tokio::time::sleep(Duration::from_millis(rng.range(1, 40) as u64)).await;
        }
        // safety at any time: nothing held that nobody wrote
        if rng.chance(1, 3) {
            let i = *rng.pick(&joined);
            match dump(&members[i].as_ref().unwrap().doc).await {
                Ok(d) => {
                    ctx.count("dumps_checked_during_history", 1);
                    let wr: BTreeSet<&E> = written.iter().map(|(_, e)| e).collect();
                    for e in &d {
                        if !wr.contains(e) && judge(ctx, "C04") {
                            ctx.violation(case, "stack-entry-nobody-wrote", json!({"node": i, "entry": e.short(), "trace": trace}));
                            return true;
                        }
                    }
                }
                Err(e) => bail_h!("dump: {e:?}"),
            }
        }
    }

    // ---- closing: everybody in, everybody syncing, no more writes
    while next_join < n {
        if let Err(e) = join(nodes, &mut members, next_join, 0, rng, &mut trace).await {
            bail_h!("join: {e:?}");
        }
        next_join += 1;
    }
    for i in 0..n {
        if !members[i].as_ref().unwrap().syncing {
            let j = (i + 1) % n;
            if let Err(e) = members[i].as_ref().unwrap().doc.start_sync(vec![nodes[j].addr.clone()]).await {
                bail_h!("start_sync: {e:?}");
            }
            members[i].as_mut().unwrap().syncing = true;
        }
    }
    let all: Vec<E> = written.iter().map(|(_, e)| e.clone()).collect();
    let want = merge(&all);
    let pairs: Vec<(usize, usize)> = if n == 2 {
        vec![(0, 1)]
    } else {
        match rng.below(4) {
            0 => vec![(0, 1), (1, 2)],
            1 => vec![(1, 0), (2, 0)],
            2 => vec![(2, 1), (0, 2)],
            _ => vec![(0, 1), (1, 2), (2, 0)],
        }
    };
    let max_rounds = written.len() * n + 4;
    let mut counted_rounds = 0usize;
    let mut attempts = 0usize;
    let mut converged_after = None;
    let mut last_dumps: Vec<BTreeSet<E>> = vec![];
    loop {
        attempts += 1;
        if attempts > max_rounds + 30 {
            ctx.count("inconclusive[rounds-with-failed-sessions]", 1);
            finish(&mut members).await;
            return false;
        }
        let marks: Vec<usize> = (0..n).map(|i| members[i].as_ref().unwrap().events.lock().unwrap().len()).collect();
        // a round: every pair of the set runs a session to completion
        let mut ok_round = true;
        for kick in 0..5 {
            for &(i, j) in &pairs {
                let a = sync_events_since(&members[i].as_ref().unwrap().events, marks[i], &ids[j]);
                let b = sync_events_since(&members[j].as_ref().unwrap().events, marks[j], &ids[i]);
                // (one end alone may have reported: the end of a session that its other end, having
                // left and rejoined in the meantime, no longer accounts for)
                if a.is_empty() || b.is_empty() {
                    if let Err(e) = members[i].as_ref().unwrap().doc.start_sync(vec![nodes[j].addr.clone()]).await {
                        bail_h!("start_sync: {e:?}");
                    }
                }
            }
            let deadline = tokio::time::Instant::now() + Duration::from_secs(if kick == 0 { 3 } else { 10 });
            let mut complete = false;
            while tokio::time::Instant::now() < deadline {
                complete = pairs.iter().all(|&(i, j)| {
                    !sync_events_since(&members[i].as_ref().unwrap().events, marks[i], &ids[j]).is_empty()
                        && !sync_events_since(&members[j].as_ref().unwrap().events, marks[j], &ids[i]).is_empty()
                });
                if complete {
                    break;
                }
                tokio::time::sleep(Duration::from_millis(3)).await;
            }
            if complete {
                break;
            }
            if kick == 4 {
                ctx.count("inconclusive[no-session-end-reported]", 1);
                ctx.note(format!("a history was given up: no end of session reported for some pair within 43 s (case {case})"));
                if std::env::var("VCHECK_TRACE").is_ok() {
                    eprintln!("trace {trace:#?}\npairs {pairs:?} marks {marks:?}");
                    for i in 0..n {
                        let evs = members[i].as_ref().unwrap().events.lock().unwrap();
                        for (k, e) in evs.iter().enumerate() {
                            if let LiveEvent::SyncFinished(s) = e {
                                eprintln!("node{i} ev{k}: peer node{:?} origin {:?} result {:?}", ids.iter().position(|x| *x == s.peer), s.origin, s.result);
                            } else if !matches!(e, LiveEvent::InsertLocal { .. } | LiveEvent::InsertRemote { .. }) {
                                eprintln!("node{i} ev{k}: {e}");
                            }
                        }
                    }
                }
                finish(&mut members).await;
                return false;
            }
        }
        for &(i, j) in &pairs {
            for (a, b) in [(i, j), (j, i)] {
                for (ok, ..) in sync_events_since(&members[a].as_ref().unwrap().events, marks[a], &ids[b]) {
                    if !ok {
                        ok_round = false;
                    }
                }
            }
        }
        ctx.count("closing_rounds", 1);
        if !ok_round {
            ctx.count("closing_rounds_with_a_failed_session", 1);
            continue;
        }
        counted_rounds += 1;
        last_dumps.clear();
        for i in 0..n {
            match dump(&members[i].as_ref().unwrap().doc).await {
                Ok(d) => last_dumps.push(d),
                Err(e) => bail_h!("dump: {e:?}"),
            }
        }
        let wr: BTreeSet<&E> = written.iter().map(|(_, e)| e).collect();
        for (i, d) in last_dumps.iter().enumerate() {
            for e in d {
                if !wr.contains(e) && judge(ctx, "C04") {
                    ctx.violation(case, "stack-entry-nobody-wrote", json!({"node": i, "entry": e.short(), "trace": trace}));
                    finish(&mut members).await;
                    return true;
                }
            }
        }
        if last_dumps.iter().all(|d| *d == want) {
            converged_after = Some(counted_rounds);
            break;
        }
        // round 1 may consist of sessions that began before the last write
        if counted_rounds > max_rounds + 1 {
            break;
        }
    }
    ctx.eval();
    ctx.count("histories", 1);
    ctx.count("accepted_local_writes", written.len() as u64);
    ctx.count(&format!("histories_with_{n}_nodes"), 1);
    if left_once {
        ctx.count("histories_with_a_node_leaving_and_rejoining", 1);
    }
    let superseded = all.len() - want.len();
    if written.len() >= 2 && (superseded > 0 || left_once) {
        ctx.nontrivial(h64(format!("{trace:?}").as_bytes()));
    }
    ctx.distinct("final_states", h64(format!("{:?}", want.iter().map(|e| e.short()).collect::<Vec<_>>()).as_bytes()));
    match converged_after {
        Some(r) => {
            ctx.count(&format!("converged_after_rounds[{}]", r.min(6)), 1);
        }
        None => {
            if judge(ctx, "C04") {
                ctx.violation(
                    case,
                    "stack-not-converged",
                    json!({"rounds_of_complete_sessions": counted_rounds, "pairs": pairs, "want": want.iter().map(|e| e.short()).collect::<Vec<_>>(),
                           "dumps": last_dumps.iter().map(|d| d.iter().map(|e| e.short()).collect::<Vec<_>>()).collect::<Vec<_>>(), "trace": trace}),
                );
            }
            finish(&mut members).await;
            return true;
        }
    }
    if ctx.want_sample() {
        ctx.sample(json!({"case": case, "mode": "stack", "nodes": n, "pairs": pairs, "converged_after_rounds": converged_after, "final": want.iter().map(|e| e.short()).collect::<Vec<_>>(), "trace": trace}));
    }

    // ---- the fence: a last local write per node; when its own event is there, every earlier replica
    // event of that node has been delivered (one ordered channel)
    let mut fence_ok = true;
    for i in 0..n {
        let key = vec![0xFE, 0xFE, 0xFE, i as u8];
        iroh_docs::verif::set_clock(t0 + 100 + i as u64);
        let m = members[i].as_ref().unwrap();
        if let Err(e) = m.doc.set_bytes(nodes[i].author, key.clone(), format!("fence-{}-{}-{case}-{i}", ctx.seed, ctx.shard).into_bytes()).await {
            bail_h!("fence write: {e:?}");
        }
        let deadline = tokio::time::Instant::now() + Duration::from_secs(20);
        let mut seen = false;
        while tokio::time::Instant::now() < deadline {
            seen = m.events.lock().unwrap().iter().any(|e| matches!(e, LiveEvent::InsertLocal { entry } if entry.key() == &key[..]));
            if seen {
                break;
            }
            tokio::time::sleep(Duration::from_millis(2)).await;
        }
        if !seen {
            fence_ok = false;
        }
    }
    if !fence_ok {
        ctx.count("inconclusive[fence-event-missing]", 1);
        finish(&mut members).await;
        return false;
    }

    // ---- C12: the event streams
    let wr: BTreeSet<&E> = written.iter().map(|(_, e)| e).collect();
    for i in 0..n {
        let m = members[i].as_ref().unwrap();
        let evs = m.events.lock().unwrap().clone();
        let mut local: BTreeMap<E, usize> = BTreeMap::new();
        let mut remote: BTreeMap<E, usize> = BTreeMap::new();
        for e in &evs {
            match e {
                LiveEvent::InsertLocal { entry } => {
                    let p = plain(entry);
                    if p.key.starts_with(&[0xFE, 0xFE, 0xFE]) {
                        continue;
                    }
                    *local.entry(p).or_default() += 1;
                }
                LiveEvent::InsertRemote { from, entry, .. } => {
                    let p = plain(entry);
                    if p.key.starts_with(&[0xFE, 0xFE, 0xFE]) {
                        continue;
                    }
                    ctx.count("remote_insert_events", 1);
                    if judge(ctx, "C12") {
                        if !wr.contains(&p) {
                            ctx.violation(case, "stack-event-for-entry-nobody-wrote", json!({"node": i, "entry": p.short(), "trace": trace}));
                        }
                        if *from == ids[i] || !ids[..n].contains(from) {
                            ctx.violation(case, "stack-remote-event-names-wrong-sender", json!({"node": i, "from": from.to_string(), "entry": p.short(), "trace": trace}));
                        }
                    }
                    *remote.entry(p).or_default() += 1;
                }
                _ => {}
            }
        }
        if judge(ctx, "C12") {
            for (w, e) in &written {
                if *w == i {
                    let c = local.get(e).copied().unwrap_or(0);
                    if c != 1 {
                        ctx.violation(case, "stack-local-write-without-exactly-one-event", json!({"node": i, "entry": e.short(), "events": c, "trace": trace}));
                    }
                }
            }
            for (e, c) in &local {
                if !written.iter().any(|(w, x)| *w == i && x == e) {
                    ctx.violation(case, "stack-local-event-without-write", json!({"node": i, "entry": e.short(), "events": c, "trace": trace}));
                }
            }
            for (e, c) in &remote {
                if *c > 1 {
                    ctx.violation(case, "stack-entry-announced-twice", json!({"node": i, "entry": e.short(), "events": c, "trace": trace}));
                }
                if written.iter().any(|(w, x)| *w == i && x == e) {
                    ctx.violation(case, "stack-own-entry-announced-as-remote", json!({"node": i, "entry": e.short(), "trace": trace}));
                }
            }
            for e in &last_dumps[i] {
                let own = written.iter().any(|(w, x)| *w == i && x == e);
                if !own && remote.get(e).copied().unwrap_or(0) != 1 {
                    ctx.violation(case, "stack-held-remote-entry-without-exactly-one-event", json!({"node": i, "entry": e.short(), "events": remote.get(e), "trace": trace}));
                }
            }
        }
        ctx.count("local_insert_events", local.values().sum::<usize>() as u64);
    }

    // ---- C10: mirrored counts of sessions that succeeded on both sides
    for i in 0..n {
        for j in 0..n {
            if i == j {
                continue;
            }
            // A node that leaves forgets its session slots, and the end of a session from before is
            // then not reported by it at all: the reports of such a pair cannot be matched one to one
            // by counting (a false alarm of the first version, seen once in a thorough sweep).
            if ever_left[i] || ever_left[j] {
                ctx.count("directed_pairs_not_matched_one_to_one", 1);
                continue;
            }
            let at_i: Vec<_> = sync_events_since(&members[i].as_ref().unwrap().events, 0, &ids[j]).into_iter().filter(|x| x.3).collect();
            let at_j: Vec<_> = sync_events_since(&members[j].as_ref().unwrap().events, 0, &ids[i]).into_iter().filter(|x| !x.3).collect();
            if at_i.len() != at_j.len() || at_i.iter().chain(at_j.iter()).any(|x| !x.0) {
                ctx.count("directed_pairs_not_matched_one_to_one", 1);
                continue;
            }
            for (k, (a, b)) in at_i.iter().zip(at_j.iter()).enumerate() {
                ctx.count("sessions_with_both_ends_reported", 1);
                if a.1 + a.2 + b.1 + b.2 > 0 {
                    ctx.count("sessions_that_moved_entries", 1);
                }
                if (a.2 != b.1 || a.1 != b.2) && judge(ctx, "C10") {
                    ctx.violation(case, "stack-counts-not-mirrored", json!({"dialer": i, "acceptor": j, "session": k, "dialer_sent_recv": [a.2, a.1], "acceptor_sent_recv": [b.2, b.1], "trace": trace}));
                }
            }
        }
    }

    // ---- C15: content of entries the policy does not select
    for i in 0..n {
        let m = members[i].as_ref().unwrap();
        let Some(pol) = &m.policy else { continue };
        for (w, e) in &written {
            if *w == i || e.is_marker() {
                continue;
            }
            let selected = pol.matches_key(&e.key);
            let has = match nodes[i].blobs.has(iroh_blobs::Hash::from_bytes(e.hash)).await {
                Ok(b) => b,
                Err(err) => bail_h!("blobs.has: {err:?}"),
            };
            if selected {
                ctx.count(if has { "selected_content_present" } else { "selected_content_not_(yet)_present" }, 1);
            } else {
                ctx.count("excluded_content_checked", 1);
                if has && judge(ctx, "C15") {
                    ctx.violation(case, "stack-excluded-content-downloaded", json!({"node": i, "policy": format!("{pol:?}"), "entry": e.short(), "trace": trace}));
                }
            }
        }
    }
    finish(&mut members).await;
    true
}

trait PolicyKey {
    fn matches_key(&self, key: &[u8]) -> bool;
}
impl PolicyKey for DownloadPolicy {
    /// the one-line specification of C15
    fn matches_key(&self, key: &[u8]) -> bool {
        let hit = |f: &FilterKind| match f {
            FilterKind::Prefix(p) => key.starts_with(p),
            FilterKind::Exact(p) => key == &p[..],
        };
        match self {
            DownloadPolicy::NothingExcept(fs) => fs.iter().any(hit),
            DownloadPolicy::EverythingExcept(fs) => !fs.iter().any(hit),
        }
    }
}

async fn finish(members: &mut [Option<Member>]) {
    for m in members.iter_mut().flatten() {
        let _ = m.doc.leave().await;
        let _ = m.doc.close().await;
        m.drain.abort();
    }
}
