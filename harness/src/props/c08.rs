//! C08 — reconciliation behaves the same on the redb store as on a plain ordered map.

use std::collections::BTreeMap;

use iroh_docs::{
    store::Store,
    sync::{Record, RecordIdentifier},
    verif::{self, MapBackend},
    ContentStatus, NamespaceId, SignedEntry,
};
use serde_json::json;

use crate::{
    ctx::Ctx,
    gen::{prefix_successor, Universe},
    model::E,
    rng::{h64, Rng},
    session::{self, Cfg},
    util::{block_on, import_write, new_store, Backend, Scratch},
};

/// The reference backend: a plain ordered map over the identifier bytes, written from the
/// documentation of the storage primitives.
#[derive(Default, Clone)]
pub struct MapStore {
    pub map: BTreeMap<Vec<u8>, SignedEntry>,
}

fn idb(id: &RecordIdentifier) -> Vec<u8> {
    id.as_bytes().to_vec()
}

pub fn range_contains(x: &[u8], y: &[u8], t: &[u8]) -> bool {
    match x.cmp(y) {
        std::cmp::Ordering::Equal => true,
        std::cmp::Ordering::Less => x <= t && t < y,
        std::cmp::Ordering::Greater => x <= t || t < y,
    }
}

impl MapBackend for MapStore {
    fn first(&mut self) -> Option<RecordIdentifier> {
        self.map.values().next().map(|e| e.id().clone())
    }
    fn range(&mut self, x: &RecordIdentifier, y: &RecordIdentifier) -> Vec<SignedEntry> {
        let (x, y) = (idb(x), idb(y));
        self.map.iter().filter(|(k, _)| range_contains(&x, &y, k)).map(|(_, e)| e.clone()).collect()
    }
    fn prefixes_of(&mut self, id: &RecordIdentifier) -> Vec<SignedEntry> {
        let b = idb(id);
        self.map
            .iter()
            .filter(|(k, _)| k.len() >= 64 && b.len() >= k.len() && b[..k.len()] == k[..])
            .map(|(_, e)| e.clone())
            .collect()
    }
    fn entry_put(&mut self, entry: SignedEntry) {
        self.map.insert(idb(entry.id()), entry);
    }
    fn remove_prefix_filtered(&mut self, prefix: &RecordIdentifier, predicate: &dyn Fn(&Record) -> bool) -> usize {
        let p = idb(prefix);
        let gone: Vec<Vec<u8>> = self
            .map
            .iter()
            .filter(|(k, e)| k.starts_with(&p) && predicate(e.entry().record()))
            .map(|(k, _)| k.clone())
            .collect();
        for k in &gone {
            self.map.remove(k);
        }
        gone.len()
    }
}

/// Session over two map backends, driven by the crate's own routine through hook H3.
fn map_session(a: &mut MapStore, b: &mut MapStore, cfg_a: Cfg, cfg_b: Cfg, budget: usize) -> Result<Vec<Vec<u8>>, String> {
    let set = |c: Cfg| match c {
        Some((s, m)) => verif::set_sync_config(s, m),
        None => verif::set_sync_config(0, 0),
    };
    let mut transcript = vec![];
    set(cfg_a);
    let mut msg = verif::map_initial_message(a).map_err(|e| format!("{e:?}"))?;
    let mut to_b = true;
    let mut total_bytes = 0usize;
    let res = loop {
        transcript.push(postcard::to_stdvec(&msg).unwrap());
        total_bytes += transcript.last().unwrap().len();
        if transcript.len() > budget || total_bytes > 8 << 20 {
            break Err("budget".to_string());
        }
        let reply = if to_b {
            set(cfg_b);
            block_on(verif::map_process_message(b, msg, |_| true, ContentStatus::Missing))
        } else {
            set(cfg_a);
            block_on(verif::map_process_message(a, msg, |_| true, ContentStatus::Missing))
        };
        match reply {
            Err(e) => break Err(format!("{e:?}")),
            Ok(None) => break Ok(()),
            Ok(Some(m)) => {
                msg = m;
                to_b = !to_b;
            }
        }
    };
    set(None);
    res.map(|_| transcript)
}

fn load(store: &mut Store, ns: NamespaceId, es: &[SignedEntry]) {
    for e in es {
        verif::si_entry_put(store, ns, e.clone()).unwrap();
    }
    // One load in three is followed by a call the store must refuse (it names a document the store
    // does not have — what a late completion does after its document was dropped), while the loaded
    // entries are still in the open write batch: an ordered map keeps what it was given (added after
    // seeded change agent-C08-9).
    if es.len() % 3 == 0 {
        let missing = crate::gen::namespace(200).id();
        let _ = store.register_useful_peer(missing, [9u8; 32]);
        let _ = store.set_download_policy(&missing, iroh_docs::store::DownloadPolicy::default());
    }
}

fn scan(store: &mut Store, ns: NamespaceId) -> Vec<SignedEntry> {
    crate::util::dump(store, ns).unwrap().into_values().collect()
}

fn shorts(v: &[SignedEntry]) -> Vec<String> {
    v.iter().map(|e| E::of(e).short()).collect()
}

fn cfg(rng: &mut Rng) -> Cfg {
    if rng.chance(1, 2) { None } else { Some((*rng.pick(&[2usize, 3, 4, 5]), *rng.pick(&[1usize, 2, 3, 8]))) }
}

/// Table contents that a replica can actually hold: the closed form of a random multiset of
/// offers (sets that violate the prefix rule are not replica states; sessions over them need not
/// terminate on any backend).
fn entry_set(uni: &Universe, rng: &mut Rng, n: usize) -> Vec<SignedEntry> {
    crate::model::Model::closed_form(&uni.entries(rng, n, 4)).entries()
}

pub fn run(ctx: &mut Ctx) {
    let scratch = Scratch::new();
    for case in ctx.cases(500, 40_000) {
        let mut rng = ctx.rng(case);
        let uni = Universe::new(&mut rng, 1);
        let other = Universe::new(&mut rng, 2); // neighbouring document in the same redb store
        let ns = uni.ns.id();
        let max_n = if ctx.is_quick() { 24 } else { 56 };
        // One case in four gives the redb replicas a previous life: the document held other entries,
        // opened a session, was removed and created again before the state under test is loaded. The
        // ordered-map reference has no such past; nothing of it may show (half of these cases test
        // the replica that is empty after re-creation).
        let previous_life = rng.chance(1, 4);
        let na = if previous_life && rng.chance(1, 2) { 0 } else { rng.range(0, max_n) };
        let nb = rng.range(0, max_n);
        let set_a = entry_set(&uni, &mut rng, na);
        let mut set_b = entry_set(&uni, &mut rng, nb);
        for e in &set_a {
            if rng.chance(1, 3) && !set_b.iter().any(|x| x.id() == e.id()) {
                set_b.push(e.clone());
            }
        }
        let noise = entry_set(&other, &mut rng, 6);
        ctx.eval();
        if !set_a.is_empty() && !set_b.is_empty() {
            ctx.nontrivial(h64(format!("{:?}{:?}", shorts(&set_a), shorts(&set_b)).as_bytes()));
        }

        // ---- primitives on one state
        let file = rng.chance(1, 6);
        let (mut st, _) = new_store(if file { Backend::File } else { Backend::Memory }, &scratch);
        import_write(&mut st, &uni.ns);
        import_write(&mut st, &other.ns);
        load(&mut st, ns, &set_a);
        load(&mut st, other.ns.id(), &noise);
        let mut map = MapStore::default();
        for e in &set_a {
            map.entry_put(e.clone());
        }
        if primitives(ctx, case, &mut rng, &mut st, &mut map, &uni, &other, &set_a, file).is_err() {
            continue;
        }
        if case % 3 == 0 && edge_ids(ctx, case, &mut rng, &scratch).is_err() {
            continue;
        }

        // ---- whole sessions: memory redb, file redb, ordered map
        let (ca, cb) = (cfg(&mut rng), cfg(&mut rng));
        let budget = 64.max(4 * (set_a.len() + set_b.len()) + 16);
        for a_initiates in [true, false] {
            let mut transcripts: Vec<(String, Result<Vec<Vec<u8>>, String>, Vec<SignedEntry>, Vec<SignedEntry>)> = vec![];
            let kinds: &[Backend] = if rng.chance(1, 5) { &[Backend::Memory, Backend::File] } else { &[Backend::Memory] };
            for k in kinds {
                let (mut a, _) = new_store(*k, &scratch);
                let (mut b, _) = new_store(*k, &scratch);
                for s in [&mut a, &mut b] {
                    import_write(s, &uni.ns);
                    import_write(s, &other.ns);
                    load(s, other.ns.id(), &noise);
                }
                if previous_life {
                    load(&mut a, ns, &set_b);
                    if let Ok(mut r) = a.open_replica(&ns) {
                        let _ = r.sync_initial_message();
                    }
                    a.close_replica(ns);
                    let removed = a.remove_replica(&ns).is_ok();
                    import_write(&mut a, &uni.ns);
                    if removed {
                        ctx.count("replicas_with_a_previous_life", 1);
                    }
                }
                load(&mut a, ns, &set_a);
                load(&mut b, ns, &set_b);
                let r = if a_initiates {
                    session::run(&mut a, &mut b, ns, ca, cb, budget)
                } else {
                    session::run(&mut b, &mut a, ns, cb, ca, budget)
                };
                let t = if let Some(e) = r.error { Err(e) } else if r.exceeded_budget { Err("budget".into()) } else { Ok(r.transcript) };
                transcripts.push((format!("{k:?}"), t, scan(&mut a, ns), scan(&mut b, ns)));
            }
            let mut ma = MapStore::default();
            let mut mb = MapStore::default();
            for e in &set_a {
                ma.entry_put(e.clone());
            }
            for e in &set_b {
                mb.entry_put(e.clone());
            }
            let t = if a_initiates { map_session(&mut ma, &mut mb, ca, cb, budget) } else { map_session(&mut mb, &mut ma, cb, ca, budget) };
            transcripts.push(("map".into(), t, ma.map.values().cloned().collect(), mb.map.values().cloned().collect()));
            ctx.count("sessions_compared", transcripts.len() as u64 - 1);
            let (ref_name, ref_t, ref_a, ref_b) = transcripts.last().unwrap().clone();
            for (name, t, fa, fb) in transcripts.iter().take(transcripts.len() - 1) {
                let detail = |what: serde_json::Value| {
                    json!({"backend": name, "reference": ref_name, "a_initiates": a_initiates, "cfg_a": format!("{ca:?}"), "cfg_b": format!("{cb:?}"),
                        "set_a": shorts(&set_a), "set_b": shorts(&set_b), "what": what})
                };
                match (t, &ref_t) {
                    (Ok(x), Ok(y)) => {
                        ctx.count("messages_compared", x.len().max(y.len()) as u64);
                        if x != y {
                            let i = x.iter().zip(y.iter()).position(|(p, q)| p != q).unwrap_or(x.len().min(y.len()));
                            ctx.violation(case, "transcripts-differ-between-backends", detail(json!({"first_difference_at_message": i, "lengths": [x.len(), y.len()]})));
                            continue;
                        }
                    }
                    (x, y) => {
                        if x.is_err() != y.is_err() {
                            ctx.violation(case, "session-outcome-differs-between-backends", detail(json!({"db": format!("{:?}", x.as_ref().err()), "map": format!("{:?}", y.as_ref().err())})));
                            continue;
                        }
                    }
                }
                if *fa != ref_a || *fb != ref_b {
                    ctx.violation(case, "final-sets-differ-between-backends", detail(json!({"db_a": shorts(fa), "map_a": shorts(&ref_a), "db_b": shorts(fb), "map_b": shorts(&ref_b)})));
                }
            }
        }
        if ctx.want_sample() {
            ctx.sample(json!({"case": case, "set_a": shorts(&set_a), "set_b": shorts(&set_b), "cfg_a": format!("{ca:?}"), "cfg_b": format!("{cb:?}")}));
        }
    }
}

#[allow(clippy::too_many_arguments)]
fn primitives(ctx: &mut Ctx, case: u64, rng: &mut Rng, st: &mut Store, map: &mut MapStore, uni: &Universe, other: &Universe, set: &[SignedEntry], file: bool) -> Result<(), ()> {
    let authors: Vec<iroh_docs::AuthorId> = uni.authors.iter().map(|a| a.id()).collect();
    let foreign = vec![(other.ns.id(), other.authors[0].id())];
    primitives_on(ctx, case, rng, st, map, uni.ns.id(), &authors, &foreign, uni.t0, set, file, "")
}

#[allow(clippy::too_many_arguments)]
fn primitives_on(ctx: &mut Ctx, case: u64, rng: &mut Rng, st: &mut Store, map: &mut MapStore, ns: NamespaceId, authors: &[iroh_docs::AuthorId], foreign: &[(NamespaceId, iroh_docs::AuthorId)], t0: u64, set: &[SignedEntry], file: bool, tag: &str) -> Result<(), ()> {
    let state = shorts(set);
    // first key
    let got = verif::si_get_first(st, ns).map_err(|_| ())?;
    let want = map.first().unwrap_or_default();
    ctx.count("first_key_checks", 1);
    if got != want {
        ctx.violation(case, &format!("first-key-differs{tag}"), json!({"state": state, "got": hex::encode(got.as_bytes()), "expected": hex::encode(want.as_bytes())}));
        return Err(());
    }
    // candidate bounds
    let mut bounds: Vec<RecordIdentifier> = vec![RecordIdentifier::default()];
    for e in set {
        bounds.push(e.id().clone());
        let (n, a, k) = e.id().as_byte_tuple();
        if let Some(s) = prefix_successor(k) {
            bounds.push(RecordIdentifier::new(NamespaceId::from(n), iroh_docs::AuthorId::from(a), &s));
        }
        let mut k2 = k.to_vec();
        k2.push(0);
        bounds.push(RecordIdentifier::new(NamespaceId::from(n), iroh_docs::AuthorId::from(a), &k2));
        if !k.is_empty() {
            bounds.push(RecordIdentifier::new(NamespaceId::from(n), iroh_docs::AuthorId::from(a), &k[..k.len() - 1]));
        }
    }
    for a in authors {
        bounds.push(RecordIdentifier::new(ns, *a, b""));
        bounds.push(RecordIdentifier::new(ns, *a, [0xFF]));
        bounds.push(RecordIdentifier::new(ns, *a, [0xFF, 0xFF, 0xFF, 0xFF, 0xFF]));
    }
    bounds.push(RecordIdentifier::new(ns, iroh_docs::AuthorId::from(&[0u8; 32]), b""));
    bounds.push(RecordIdentifier::new(ns, iroh_docs::AuthorId::from(&[0xFF; 32]), [0xFF]));
    // bounds in the neighbouring document and outside any document
    for (fns, fa) in foreign {
        bounds.push(RecordIdentifier::new(*fns, *fa, b""));
        bounds.push(RecordIdentifier::new(*fns, iroh_docs::AuthorId::from(&[0xFF; 32]), [0xFF]));
    }
    bounds.push(RecordIdentifier::new(NamespaceId::from(&[0u8; 32]), iroh_docs::AuthorId::from(&[0u8; 32]), b""));
    bounds.push(RecordIdentifier::new(NamespaceId::from(&[0xFF; 32]), iroh_docs::AuthorId::from(&[0xFF; 32]), [0xFF]));
    let n_ranges = if ctx.is_quick() { 60 } else { 200 };
    for _ in 0..n_ranges {
        let x = rng.pick(&bounds).clone();
        let y = if rng.chance(1, 8) { x.clone() } else { rng.pick(&bounds).clone() };
        let kind = match x.cmp(&y) {
            std::cmp::Ordering::Less => "x<y",
            std::cmp::Ordering::Equal => "x=y",
            std::cmp::Ordering::Greater => "x>y",
        };
        let foreign = x.namespace() != ns || y.namespace() != ns;
        ctx.count(&format!("ranges[{kind}{}]", if foreign { ",foreign-bound" } else { "" }), 1);
        let got = match verif::si_get_range(st, ns, x.clone(), y.clone()) {
            Ok(g) => g,
            Err(e) => {
                ctx.violation(case, "range-scan-failed", json!({"err": format!("{e:?}")}));
                return Err(());
            }
        };
        let want = map.range(&x, &y);
        if got != want {
            let leaked = got.iter().any(|e| e.namespace() != ns);
            let sig = if leaked {
                format!("range-scan-returns-entries-of-another-document[{kind}]{tag}")
            } else if foreign {
                format!("range-scan-differs[{kind},foreign-bound]{tag}")
            } else {
                format!("range-scan-differs[{kind}]{tag}")
            };
            ctx.violation(case, &sig, json!({"state": state, "file": file, "x": hex::encode(&x.as_bytes()[28..]), "y": hex::encode(&y.as_bytes()[28..]),
                "got": shorts(&got), "expected": shorts(&want)}));
            return Err(());
        }
        let fp = verif::si_fingerprint(st, ns, x.clone(), y.clone()).map_err(|_| ())?;
        let mut wfp = *blake3::hash(&[]).as_bytes();
        for e in &want {
            for (a, b) in wfp.iter_mut().zip(verif::entry_fingerprint(e).iter()) {
                *a ^= b;
            }
        }
        if fp != wfp {
            ctx.violation(case, "range-fingerprint-differs", json!({"state": state, "x": hex::encode(&x.as_bytes()[60..]), "y": hex::encode(&y.as_bytes()[60..])}));
            return Err(());
        }
    }
    // prefixes_of
    for _ in 0..20 {
        let id = rng.pick(&bounds).clone();
        if id.namespace() != ns {
            continue;
        }
        ctx.count("prefix_lookups", 1);
        let mut got = verif::si_prefixes_of(st, ns, &id).map_err(|_| ())?;
        let mut want = map.prefixes_of(&id);
        got.sort();
        want.sort();
        if got != want {
            let missing: Vec<_> = want.iter().filter(|w| !got.contains(w)).collect();
            let sig = if missing.iter().any(|m| m.key().is_empty()) {
                "prefix-lookup-misses-empty-key-entry"
            } else if missing.iter().any(|m| m.content_len() == 0) {
                "prefix-lookup-misses-deletion-marker"
            } else {
                "prefix-lookup-differs"
            };
            ctx.violation(case, sig, json!({"state": state, "key": hex::encode(id.key()), "got": shorts(&got), "expected": shorts(&want)}));
            return Err(());
        }
    }
    // prefix removal (mutating: last)
    for _ in 0..3 {
        let id = rng.pick(&bounds).clone();
        if id.namespace() != ns {
            continue;
        }
        let threshold = t0 + rng.below(9) as u64;
        ctx.count("prefix_removals", 1);
        let got = verif::si_remove_prefix_filtered(st, ns, &id, |r| r.timestamp() <= threshold).map_err(|_| ())?;
        let want = map.remove_prefix_filtered(&id, &|r: &Record| r.timestamp() <= threshold);
        let after = scan(st, ns);
        let want_after: Vec<SignedEntry> = map.map.values().cloned().collect();
        if got != want || after != want_after {
            let sig = if id.key().last() == Some(&0xFF) { format!("prefix-removal-differs[prefix..ff]{tag}") } else { format!("prefix-removal-differs{tag}") };
            ctx.violation(case, &sig, json!({"state": state, "prefix": hex::encode(id.key()), "removed": got, "expected_removed": want,
                "after": shorts(&after), "expected_after": shorts(&want_after)}));
            return Err(());
        }
        // neighbouring document untouched
    }
    Ok(())
}

/// Storage primitives over identifiers at the carry boundary: a namespace / author id ending in
/// 0xFF (one or two bytes) next to a neighbour whose id is the carried successor plus a little.
/// Such ids cannot be signed for, so entries are placed below the validation layer (hook H3) —
/// which is where the table bounds are computed.
fn edge_ids(ctx: &mut Ctx, case: u64, rng: &mut Rng, scratch: &Scratch) -> Result<(), ()> {
    use crate::wire::RawEntry;
    let t0 = crate::gen::t0();
    let mk_pair = |rng: &mut Rng| -> ([u8; 32], [u8; 32]) {
        let mut a = rng.fill32();
        let ffs = rng.range(1, 3);
        for i in 0..ffs {
            a[31 - i] = 0xFF;
        }
        if a[31 - ffs] == 0xFF {
            a[31 - ffs] = 0x05;
        }
        let mut b = a;
        b[31 - ffs] += 1;
        for i in 0..ffs {
            b[31 - i] = rng.next_u64() as u8;
        }
        (a, b)
    };
    let (ns_a, ns_b) = mk_pair(rng);
    let (au_a, au_b) = mk_pair(rng);
    let au_c = rng.fill32();
    let authors = [au_a, au_b, au_c];
    let file = rng.chance(1, 6);
    let (mut st, _) = new_store(if file { Backend::File } else { Backend::Memory }, scratch);
    let mut maps = [MapStore::default(), MapStore::default()];
    let mut sets: [Vec<SignedEntry>; 2] = [vec![], vec![]];
    for (d, ns) in [ns_a, ns_b].iter().enumerate() {
        st.import_namespace(iroh_docs::Capability::Read(NamespaceId::from(ns))).map_err(|_| ())?;
        let mut keys: Vec<Vec<u8>> = vec![];
        for _ in 0..rng.range(2, 12) {
            let k = crate::gen::key(rng, &keys, 3);
            keys.push(k.clone());
            let a = *rng.pick(&authors);
            let (h, l) = crate::gen::content(rng.below(4));
            let mut id = ns.to_vec();
            id.extend_from_slice(&a);
            id.extend_from_slice(&k);
            let raw = RawEntry { author_sig: [1; 64], namespace_sig: [2; 64], id, len: l, hash: *h.as_bytes(), ts: t0 + rng.below(8) as u64 };
            let Ok(e) = raw.into_entry() else { continue };
            if maps[d].map.contains_key(&idb(e.id())) {
                continue;
            }
            verif::si_entry_put(&mut st, NamespaceId::from(ns), e.clone()).map_err(|_| ())?;
            maps[d].entry_put(e.clone());
            sets[d].push(e);
        }
    }
    ctx.count("edge_id_states", 1);
    let aids: Vec<iroh_docs::AuthorId> = authors.iter().map(iroh_docs::AuthorId::from).collect();
    let foreign = vec![(NamespaceId::from(&ns_b), aids[1])];
    let before_b = scan(&mut st, NamespaceId::from(&ns_b));
    let want_b: Vec<SignedEntry> = maps[1].map.values().cloned().collect();
    if before_b != want_b {
        ctx.violation(case, "scan-of-neighbouring-document-differs[carry-boundary-ids]", json!({"ns_a": hex::encode(&ns_a[28..]), "ns_b": hex::encode(&ns_b[28..]), "got": shorts(&before_b), "expected": shorts(&want_b)}));
        return Err(());
    }
    let (m0, _m1) = maps.split_at_mut(1);
    primitives_on(ctx, case, rng, &mut st, &mut m0[0], NamespaceId::from(&ns_a), &aids, &foreign, t0, &sets[0], file, "[carry-boundary-ids]")?;
    // whatever was removed in document A, document B is untouched
    let after_b = scan(&mut st, NamespaceId::from(&ns_b));
    if after_b != want_b {
        ctx.violation(case, "prefix-removal-reached-the-neighbouring-document[carry-boundary-ids]", json!({"ns_a": hex::encode(&ns_a[28..]), "ns_b": hex::encode(&ns_b[28..])}));
        return Err(());
    }
    Ok(())
}
