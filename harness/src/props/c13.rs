//! C13 — author heads and news detection reflect exactly the entries held.

use std::collections::BTreeMap;

use iroh_docs::{AuthorHeads, AuthorId, Capability};
use serde_json::json;

use crate::{
    ctx::Ctx,
    gen::Universe,
    model::E,
    rng::{h64, Rng},
    util::{dump, heads, import_write, new_store, offer_remote, Backend, Scratch},
};

pub fn run(ctx: &mut Ctx) {
    let scratch = Scratch::new();
    for case in ctx.cases(3_000, 200_000) {
        let mut rng = ctx.rng(case);
        match case % 3 {
            0 | 1 => history_case(ctx, case, &mut rng, &scratch),
            _ => encode_case(ctx, case, &mut rng),
        }
    }
}

fn varint_len(mut v: u64) -> usize {
    let mut n = 1;
    while v >= 0x80 {
        v >>= 7;
        n += 1;
    }
    n
}

/// independent size computation of the postcard encoding of Vec<(u64, [u8;32])>
fn encoded_size(items: &[(u64, [u8; 32])]) -> usize {
    varint_len(items.len() as u64) + items.iter().map(|(t, _)| varint_len(*t) + 32).sum::<usize>()
}

fn encode_case(ctx: &mut Ctx, case: u64, rng: &mut Rng) {
    // mostly small sets; one in five is large enough for the list-length prefix to need two bytes
    let n = if rng.chance(1, 5) { rng.range(100, 300) } else { rng.range(0, 40) };
    let n_ts = rng.range(1, 6);
    // timestamps of very different varint widths, many shared
    let pool: Vec<u64> = (0..n_ts)
        .map(|_| match rng.below(4) {
            0 => rng.below(100) as u64,
            1 => 1_700_000_000_000_000 + rng.below(5) as u64,
            2 => rng.next_u64(),
            _ => rng.below(70_000) as u64,
        })
        .collect();
    let mut h = AuthorHeads::default();
    let mut plain: BTreeMap<[u8; 32], u64> = BTreeMap::new();
    for _ in 0..n {
        let a = rng.fill32();
        let t = *rng.pick(&pool);
        h.insert(AuthorId::from(&a), t);
        plain.insert(a, t);
    }
    ctx.eval();
    let shared = plain.len() - plain.values().collect::<std::collections::BTreeSet<_>>().len();
    if shared > 0 {
        ctx.nontrivial(h64(format!("enc{:?}", plain).as_bytes()));
        ctx.count("head_sets_with_shared_timestamps", 1);
    }
    let detail = |extra: serde_json::Value| {
        json!({"heads": plain.iter().map(|(a, t)| format!("{}@{}", hex::encode(&a[..3]), t)).collect::<Vec<_>>(), "extra": extra})
    };
    // no limit: every author kept
    match h.encode(None) {
        Err(e) => ctx.violation(case, "encode-failed", detail(json!(format!("{e:?}")))),
        Ok(bytes) => match AuthorHeads::decode(&bytes) {
            Err(e) => ctx.violation(case, "decode-of-own-encoding-failed", detail(json!(format!("{e:?}")))),
            Ok(d) => {
                if d != h {
                    let sig = if d.len() < h.len() && shared > 0 {
                        "encode-without-limit-drops-authors-sharing-a-timestamp"
                    } else {
                        "encode-decode-roundtrip-differs"
                    };
                    ctx.violation(case, sig, detail(json!({"decoded_len": d.len(), "len": h.len()})));
                }
            }
        },
    }
    // limits
    let full = encoded_size(&plain.iter().map(|(a, t)| (*t, *a)).collect::<Vec<_>>());
    let mut limits: Vec<usize> = vec![1, 2, 33, 34, 35, full.saturating_sub(1).max(1), full, full + 8];
    for _ in 0..4 {
        limits.push(rng.range(1, full + 8));
    }
    // limits at, just below and just above the exact size of the newest-k prefix, for several k
    // (this is where an encoder that estimates sizes goes wrong, e.g. at k = 128 where the
    // length prefix grows)
    {
        let mut items: Vec<(u64, [u8; 32])> = plain.iter().map(|(a, t)| (*t, *a)).collect();
        items.sort();
        items.reverse();
        let mut ks: Vec<usize> = vec![1, 127, 128, 129, 200];
        for _ in 0..3 {
            ks.push(rng.range(0, items.len()));
        }
        for k in ks {
            if k <= items.len() {
                let sz = encoded_size(&items[..k]);
                limits.extend([sz.saturating_sub(1).max(1), sz, sz + 1]);
            }
        }
    }
    for l in limits {
        ctx.count("limit_checks", 1);
        let bytes = match h.encode(Some(l)) {
            Ok(b) => b,
            Err(e) => {
                ctx.violation(case, "encode-failed", detail(json!({"limit": l, "err": format!("{e:?}")})));
                continue;
            }
        };
        if bytes.len() > l {
            ctx.violation(case, "encoding-exceeds-limit", detail(json!({"limit": l, "len": bytes.len()})));
            continue;
        }
        let d = match AuthorHeads::decode(&bytes) {
            Ok(d) => d,
            Err(e) => {
                ctx.violation(case, "decode-of-own-encoding-failed", detail(json!({"limit": l, "err": format!("{e:?}")})));
                continue;
            }
        };
        let kept: BTreeMap<[u8; 32], u64> = d.iter().map(|(a, t)| (a.to_bytes(), *t)).collect();
        // K subset of h
        if kept.iter().any(|(a, t)| plain.get(a) != Some(t)) {
            ctx.violation(case, "limited-encoding-contains-foreign-head", detail(json!({"limit": l})));
            continue;
        }
        let omitted: Vec<(&[u8; 32], &u64)> = plain.iter().filter(|(a, _)| !kept.contains_key(*a)).collect();
        if omitted.is_empty() {
            continue;
        }
        let min_kept = kept.values().min().copied();
        let max_omitted = omitted.iter().map(|(_, t)| **t).max().unwrap();
        if let Some(mk) = min_kept {
            if max_omitted > mk {
                ctx.violation(case, "limited-encoding-omits-newer-head-than-kept", detail(json!({"limit": l, "kept": kept.len()})));
                continue;
            }
        }
        // adding the newest omitted head must exceed the limit
        let mut items: Vec<(u64, [u8; 32])> = kept.iter().map(|(a, t)| (*t, *a)).collect();
        items.push((max_omitted, [0u8; 32]));
        if encoded_size(&items) <= l {
            let sig = if shared > 0 {
                "limited-encoding-drops-heads-that-fit (authors sharing a timestamp)"
            } else {
                "limited-encoding-drops-heads-that-fit"
            };
            ctx.violation(case, sig, detail(json!({"limit": l, "kept": kept.len(), "of": plain.len()})));
        }
    }
}

fn history_case(ctx: &mut Ctx, case: u64, rng: &mut Rng, scratch: &Scratch) {
    let backend = if rng.chance(1, 10) { Backend::File } else { Backend::Memory };
    let (mut store, _p) = new_store(backend, scratch);
    // two neighbouring documents in one store
    let unis = [Universe::new(rng, 1), Universe::new(rng, 2)];
    for u in &unis {
        import_write(&mut store, &u.ns);
    }
    let n = rng.range(3, 14);
    let mut pending: Vec<(usize, iroh_docs::SignedEntry)> = vec![];
    for (d, u) in unis.iter().enumerate() {
        for e in u.entries(rng, n, 3) {
            pending.push((d, e));
        }
    }
    rng.shuffle(&mut pending);
    ctx.eval();
    let mut decreasing = false;
    let mut last_ts: BTreeMap<(usize, [u8; 32]), u64> = BTreeMap::new();
    let mut trace = vec![];
    let mut step = 0;
    let sparse = rng.chance(1, 3);
    while let Some((d, e)) = pending.pop() {
        step += 1;
        let ns = unis[d].ns.id();
        // occasionally remove and re-create a document
        if rng.chance(1, 12) {
            let _ = store.remove_replica(&ns);
            trace.push(format!("remove+recreate doc{d}"));
            store
                .import_namespace(Capability::Write(unis[d].ns.clone()))
                .unwrap();
            last_ts.retain(|(dd, _), _| *dd != d);
            ctx.count("remove_recreate", 1);
        }
        // The store's author *keys* come and go (added after seeded change agent-C13-9): the authors
        // are the store's, the entries they signed stay in the documents, and so do their heads.
        if rng.chance(1, 8) {
            let a = &unis[d].authors[rng.below(unis[d].authors.len())];
            if rng.chance(1, 2) {
                let _ = store.import_author(a.clone());
                trace.push("import the key of an author".to_string());
            }
            if rng.chance(2, 3) {
                let _ = store.delete_author(a.id());
                trace.push("delete the key of an author".to_string());
                ctx.count("author_keys_deleted", 1);
            }
        }
        let ev = E::of(&e);
        if let Some(prev) = last_ts.get(&(d, ev.author)) {
            if ev.ts < *prev {
                decreasing = true;
            }
        }
        let r = offer_remote(&mut store, ns, &e);
        if matches!(r, crate::util::Offered::Stored(_)) {
            last_ts.insert((d, ev.author), ev.ts.max(*last_ts.get(&(d, ev.author)).unwrap_or(&0)));
        }
        trace.push(format!("doc{d} {} -> {:?}", ev.short(), r));
        // the dump below commits the open write batch; in a sparse history most steps are not
        // observed, so that several offers (and removals) share one uncommitted batch
        if sparse && !pending.is_empty() && !rng.chance(1, 3) {
            ctx.count("steps_not_observed_(batch_left_open)", 1);
            continue;
        }
        // monitor: heads == per-author maximum over the actual dump, for both documents
        for (dd, u) in unis.iter().enumerate() {
            let id = u.ns.id();
            // heads and news detection are read first, through the open transaction: the dump
            // that follows goes through a snapshot and commits the batch
            let hd = match heads(&mut store, id) {
                Ok(h) => h,
                Err(e) => {
                    ctx.violation(case, "heads-or-dump-failed", json!({"heads": format!("{e:?}")}));
                    return;
                }
            };
            {
                let want: BTreeMap<[u8; 32], u64> = hd.iter().map(|(a, (t, _))| (*a, *t)).collect();
                // news detection judged against the heads actually held
                for _ in 0..3 {
                    let mut report = AuthorHeads::default();
                    let mut expect = 0u64;
                    let mut spec = vec![];
                    for (a, t) in want.iter() {
                        match rng.below(5) {
                            0 => {}
                            1 => {
                                report.insert(AuthorId::from(a), *t);
                                spec.push("equal");
                            }
                            2 => {
                                report.insert(AuthorId::from(a), *t + 1);
                                expect += 1;
                                spec.push("newer");
                            }
                            3 => {
                                report.insert(AuthorId::from(a), t.saturating_sub(1));
                                spec.push("older");
                            }
                            _ => {
                                report.insert(AuthorId::from(a), *t + 1 + rng.below(3) as u64);
                                expect += 1;
                                spec.push("newer");
                            }
                        }
                    }
                    if rng.chance(1, 2) {
                        // an author that is unknown locally (one of the other universe's extra authors or random)
                        let unknown = rng.fill32();
                        if !want.contains_key(&unknown) {
                            report.insert(AuthorId::from(&unknown), rng.below(10) as u64);
                            expect += 1;
                            spec.push("unknown");
                        }
                    }
                    ctx.count("news_checks", 1);
                    match store.has_news_for_us(id, &report) {
                        Err(e) => {
                            ctx.violation(case, "has-news-failed", json!({"err": format!("{e:?}")}));
                            return;
                        }
                        Ok(got) => {
                            let got = got.map(|n| n.get()).unwrap_or(0);
                            if got != expect {
                                ctx.violation(
                                    case,
                                    "news-count-differs",
                                    json!({"doc": dd, "step": step, "report": spec, "expected": expect, "got": got, "trace": trace}),
                                );
                                return;
                            }
                        }
                    }
                    // The same report as it may come over the wire from a peer that names an author
                    // twice, the older timestamp before or after the newer one (added after seeded change
                    // agent-C13-7). The report names a strictly newer timestamp for exactly the same
                    // authors as before, so the verdict must be the same.
                    if rng.chance(1, 2) && !report.is_empty() {
                        let mut items: Vec<(u64, AuthorId)> = report.iter().map(|(a, t)| (*t, *a)).collect();
                        rng.shuffle(&mut items);
                        let k = rng.below(items.len());
                        let (t, a) = items[k];
                        let older = (t.saturating_sub(1 + rng.below(3) as u64), a);
                        if rng.chance(1, 2) {
                            items.push(older);
                        } else {
                            items.insert(0, older);
                        }
                        let bytes = postcard::to_stdvec(&items).unwrap();
                        ctx.count("news_checks_on_wire_reports_naming_an_author_twice", 1);
                        match AuthorHeads::decode(&bytes) {
                            Err(_) => {} // refusing such a report is not a wrong verdict
                            Ok(wire_report) => match store.has_news_for_us(id, &wire_report) {
                                Err(e) => {
                                    ctx.violation(case, "has-news-failed", json!({"err": format!("{e:?}")}));
                                    return;
                                }
                                Ok(got) => {
                                    let got = got.map(|n| n.get()).unwrap_or(0);
                                    if got != expect {
                                        ctx.violation(case, "news-count-differs[author-named-twice]", json!({"doc": dd, "step": step, "report": spec, "expected": expect, "got": got, "trace": trace}));
                                        return;
                                    }
                                }
                            },
                        }
                    }
                }
            }
            let dm = match dump(&mut store, id) {
                Ok(d) => d,
                Err(e) => {
                    ctx.violation(case, "heads-or-dump-failed", json!({"dump": format!("{e:?}")}));
                    return;
                }
            };
            let mut want: BTreeMap<[u8; 32], u64> = BTreeMap::new();
            for ((a, _), x) in dm.iter() {
                let t = x.timestamp();
                want.entry(*a).and_modify(|m| *m = (*m).max(t)).or_insert(t);
            }
            let got: BTreeMap<[u8; 32], u64> = hd.iter().map(|(a, (t, _))| (*a, *t)).collect();
            ctx.count("head_checks", 1);
            if got != want {
                let sig = if got.keys().any(|a| !want.contains_key(a)) && dm.is_empty() {
                    "heads-survive-document-removal"
                } else if got.iter().any(|(a, t)| want.get(a).map(|w| t < w).unwrap_or(false)) {
                    "head-older-than-newest-entry-held"
                } else if got.iter().any(|(a, t)| want.get(a).map(|w| t > w).unwrap_or(false)) {
                    "head-newer-than-any-entry-held"
                } else {
                    "heads-differ-from-entries-held"
                };
                ctx.violation(
                    case,
                    sig,
                    json!({"doc": dd, "step": step, "trace": trace,
                        "heads": got.iter().map(|(a, t)| format!("{}@{}", hex::encode(&a[..2]), t % 1_000_000)).collect::<Vec<_>>(),
                        "expected": want.iter().map(|(a, t)| format!("{}@{}", hex::encode(&a[..2]), t % 1_000_000)).collect::<Vec<_>>()}),
                );
                return;
            }
        }
    }
    if decreasing {
        ctx.nontrivial(h64(format!("hist{:?}", trace).as_bytes()));
        ctx.count("histories_with_decreasing_arrival", 1);
    }
    if ctx.want_sample() {
        ctx.sample(json!({"case": case, "history": trace}));
    }
}
