//! C10 — a sync session ends cleanly whatever the peer sends and whatever fails locally.

use std::time::Duration;

use iroh::PublicKey;
use iroh_docs::{
    actor::{OpenOpts, SyncHandle},
    net::{
        verif::{run_alice, BobState},
        AbortReason, AcceptOutcome,
    },
    store::Store,
    NamespaceId, SignedEntry,
};
use serde_json::json;
use tokio::io::{AsyncReadExt, AsyncWriteExt, DuplexStream};

use crate::{
    act,
    ctx::Ctx,
    gen::{namespace, Universe},
    model::Model,
    props::c09::{frame, msg_abort, msg_init, msg_sync},
    rng::{h64, Rng},
    util::{import_write, offer_remote},
    wire::{RawEntry, RawMessage, RawPart},
};

const LETTERS: [&str; 15] = [
    "init", "init-with-entries", "partial-length-prefix", "init-unknown-doc", "init-not-syncing-doc", "sync-fingerprint", "sync-items", "sync-tampered-entry", "sync-short-id",
    "abort-notfound", "abort-already-syncing", "abort-internal", "half-frame", "oversized-length", "garbage",
];

fn peer_key(i: u8) -> PublicKey {
    iroh::SecretKey::from_bytes(&[i; 32]).public()
}

struct World {
    uni: Universe,
    entries: Vec<SignedEntry>,
    not_syncing: NamespaceId,
    unknown: NamespaceId,
}

fn store_with(uni: &Universe, entries: &[SignedEntry], extra_doc: Option<&iroh_docs::NamespaceSecret>) -> Store {
    let mut s = Store::memory();
    import_write(&mut s, &uni.ns);
    if let Some(x) = extra_doc {
        import_write(&mut s, x);
    }
    for e in entries {
        offer_remote(&mut s, uni.ns.id(), e);
    }
    s
}

fn letter_bytes(w: &World, letter: &str, rng: &mut Rng) -> Vec<u8> {
    let zero = vec![0u8; 64];
    let fp = RawMessage { parts: vec![RawPart::Fingerprint { x: zero.clone(), y: zero.clone(), fp: [7; 32] }] }.to_bytes();
    let mk_items = |es: Vec<RawEntry>| RawMessage { parts: vec![RawPart::Item { x: zero.clone(), y: zero.clone(), values: es.into_iter().map(|e| (e, 0)).collect(), have_local: false }] }.to_bytes();
    match letter {
        "init" => frame(&msg_init(w.uni.ns.id().as_bytes(), &fp)),
        // an Init whose message already carries (valid, new) entries: a decline must not apply them
        "init-with-entries" => frame(&msg_init(w.uni.ns.id().as_bytes(), &mk_items(w.entries.iter().skip(3).map(RawEntry::of).collect()))),
        "init-unknown-doc" => frame(&msg_init(w.unknown.as_bytes(), &fp)),
        "init-not-syncing-doc" => frame(&msg_init(w.not_syncing.as_bytes(), &fp)),
        "sync-fingerprint" => frame(&msg_sync(&fp)),
        // entries the side under test does not hold yet (it holds the first three): a Sync frame behind
        // a declined Init must not get them into the store (changed after seeded change agent-C10-10;
        // the frame used to carry entries the store already held, which cannot show)
        "sync-items" => frame(&msg_sync(&mk_items(w.entries.iter().skip(3).chain(w.entries.iter().take(1)).map(RawEntry::of).collect()))),
        "sync-tampered-entry" => {
            let mut r = RawEntry::of(&w.entries[0]);
            r.author_sig[1] ^= 4;
            frame(&msg_sync(&mk_items(vec![r])))
        }
        "sync-short-id" => {
            let mut r = RawEntry::of(&w.entries[0]);
            r.id.truncate(10);
            frame(&msg_sync(&mk_items(vec![r])))
        }
        "abort-notfound" => frame(&msg_abort(0)),
        "abort-already-syncing" => frame(&msg_abort(1)),
        "abort-internal" => frame(&msg_abort(2)),
        // one to three bytes of a length prefix, then whatever follows (usually the end of the stream)
        "partial-length-prefix" => vec![0u8; 1 + rng.below(3)],
        "half-frame" => {
            let f = frame(&msg_sync(&fp));
            f[..f.len() / 2].to_vec()
        }
        "oversized-length" => {
            let mut v = ((1u32 << 30) + 5).to_be_bytes().to_vec();
            v.extend_from_slice(&[1, 2, 3, 4]);
            v
        }
        _ => {
            let mut v = (6u32).to_be_bytes().to_vec();
            v.extend_from_slice(&rng.bytes(6));
            v
        }
    }
}

#[derive(Debug, PartialEq)]
pub enum End {
    Ok,
    Err(String),
    Panicked(String),
    Pending,
}

async fn finish<T: Send + 'static>(task: tokio::task::JoinHandle<T>, probe: &SyncHandle, ns: NamespaceId, f: impl FnOnce(T) -> End) -> End {
    tokio::pin!(task);
    match tokio::time::timeout(Duration::from_secs(20), &mut task).await {
        Ok(Ok(v)) => f(v),
        Ok(Err(e)) => {
            if e.is_panic() {
                let p = crate::take_panic();
                End::Panicked(format!("{p:?}"))
            } else {
                End::Err("cancelled".into())
            }
        }
        Err(_) => {
            // inputs are exhausted (streams closed both ways). If the actor still answers, the side is stuck.
            let a = tokio::time::timeout(Duration::from_secs(10), probe.get_state(ns)).await;
            let b = tokio::time::timeout(Duration::from_secs(10), probe.get_state(ns)).await;
            if a.is_ok() && b.is_ok() {
                End::Pending
            } else {
                End::Err("actor not answering".into())
            }
        }
    }
}

pub fn run(ctx: &mut Ctx) {
    if ctx.mode.as_deref() == Some("net") {
        // the full accepting stack against a hand-driven peer (shared with C11): here it judges
        // that declined requests leave the store as it was
        return super::c11net::run(ctx);
    }
    let mode = ctx.mode.clone().unwrap_or_else(|| "script".into());
    match mode.as_str() {
        "faults" => run_faults(ctx),
        "shutdown-race" => run_shutdown_race(ctx),
        _ => run_scripts(ctx),
    }
}

fn sequences(max_len: usize) -> Vec<Vec<usize>> {
    let mut out: Vec<Vec<usize>> = vec![vec![]];
    let mut layer: Vec<Vec<usize>> = vec![vec![]];
    for _ in 0..max_len {
        let mut next = vec![];
        for s in &layer {
            for l in 0..LETTERS.len() {
                let mut s2 = s.clone();
                s2.push(l);
                next.push(s2);
            }
        }
        out.extend(next.iter().cloned());
        layer = next;
    }
    out
}

fn run_scripts(ctx: &mut Ctx) {
    let max_len = if ctx.is_quick() { 3 } else { 4 };
    let seqs = sequences(max_len);
    let total = seqs.len() as u64;
    let rt = act::runtime(2);
    // case index = sequence index; shards partition the sequences
    let mine: Vec<u64> = (0..total).filter(|i| i % ctx.nshards == ctx.shard).collect();
    let todo: Vec<u64> = match ctx.only_case {
        Some(c) => vec![c],
        None => mine,
    };
    let mut done = 0u64;
    for case in todo {
        if ctx.out_of_time() {
            ctx.note(format!("time budget reached after {done} of this shard's sequences"));
            break;
        }
        crate::ctx::CURRENT_CASE.store(case, std::sync::atomic::Ordering::SeqCst);
        let seq = &seqs[case as usize];
        let mut rng = ctx.rng(case);
        rt.block_on(script_case(ctx, case, seq, &mut rng));
        done += 1;
    }
    ctx.count("sequences_total_in_space", total);
}

async fn script_case(ctx: &mut Ctx, case: u64, seq: &[usize], rng: &mut Rng) {
    let uni = Universe::with(namespace(1), 2);
    let other = namespace(2);
    let entries = uni.entries(rng, 5, 2);
    let w = World { uni, entries: entries.clone(), not_syncing: other.id(), unknown: namespace(3).id() };
    let ns = w.uni.ns.id();
    let names: Vec<&str> = seq.iter().map(|l| LETTERS[*l]).collect();
    ctx.eval();
    ctx.nontrivial(h64(format!("{names:?}").as_bytes()));
    if ctx.want_sample() && seq.len() >= 2 {
        ctx.sample(json!({"case": case, "adversary_frames": names}));
    }
    // ---- the initiating side against the scripted peer
    {
        let h = act::spawn(store_with(&w.uni, &entries[..3], Some(&other)));
        let _ = h.open(ns, OpenOpts::default().sync()).await;
        let _ = h.open(other.id(), OpenOpts::default()).await;
        let (local, remote) = tokio::io::duplex(1 << 16);
        let (mut lr, mut lw) = tokio::io::split(local);
        let h2 = h.clone();
        let task = tokio::spawn(async move { run_alice(&mut lw, &mut lr, &h2, ns, peer_key(9)).await.map(|o| (o.num_sent, o.num_recv)) });
        play(remote, &w, seq, rng, true).await;
        let end = finish(task, &h, ns, |r| match r {
            Ok(_) => End::Ok,
            Err(e) => End::Err(format!("{e:?}")),
        })
        .await;
        ctx.count("initiator_runs", 1);
        ctx.distinct("initiator_outcomes", h64(format!("{:?}", std::mem::discriminant(&end)).as_bytes()) ^ h64(names.join(",").as_bytes()) % 7);
        judge(ctx, case, "initiator", &names, "-", &end);
        if h.get_state(ns).await.is_err() {
            ctx.violation(case, "store-actor-dead-after-session[initiator]", json!({"frames": names, "panic": format!("{:?}", crate::take_panic())}));
        }
        let _ = h.shutdown().await;
    }
    // ---- the accepting side, with every accept decision
    // the fifth decision is the one the engine's own callback takes: it allows the first request of
    // a connection and, while that session runs, answers any further question with "already syncing"
    // (added after seeded change agent-C10-7, where a second Init frame asks again)
    for (ci, cb) in ["allow", "reject-notfound", "reject-already-syncing", "reject-internal", "allow-once-then-already-syncing"].iter().enumerate() {
        let h = act::spawn(store_with(&w.uni, &entries[..3], Some(&other)));
        let _ = h.open(ns, OpenOpts::default().sync()).await;
        let _ = h.open(other.id(), OpenOpts::default()).await;
        let before = Model::from_entries(act::dump(&h, ns).await.unwrap_or_default());
        let (local, remote) = tokio::io::duplex(1 << 16);
        let (lr, lw) = tokio::io::split(local);
        let h2 = h.clone();
        let asked = std::sync::Arc::new(std::sync::atomic::AtomicUsize::new(0));
        let asked2 = asked.clone();
        let reported_declined = std::sync::Arc::new(std::sync::atomic::AtomicBool::new(false));
        let reported_declined2 = reported_declined.clone();
        let task = tokio::spawn(async move {
            let mut state = BobState::new(peer_key(8));
            let res = state
                .run(lw, lr, h2, move |_ns, _peer| {
                    let nth = asked2.fetch_add(1, std::sync::atomic::Ordering::SeqCst);
                    async move {
                        match ci {
                            0 => AcceptOutcome::Allow,
                            1 => AcceptOutcome::Reject(AbortReason::NotFound),
                            2 => AcceptOutcome::Reject(AbortReason::AlreadySyncing),
                            3 => AcceptOutcome::Reject(AbortReason::InternalServerError),
                            _ if nth == 0 => AcceptOutcome::Allow,
                            _ => AcceptOutcome::Reject(AbortReason::AlreadySyncing),
                        }
                    }
                })
                .await;
            if matches!(res, Err(iroh_docs::net::AcceptError::Abort { .. })) {
                reported_declined2.store(true, std::sync::atomic::Ordering::SeqCst);
            }
            // exactly what handle_connection does next, whatever `res` is
            let ns_seen = state.namespace();
            let outcome = state.into_outcome();
            // what the live actor needs from a failed session to attribute it: document and peer
            let attributed = match &res {
                Ok(_) => true,
                Err(e) => e.namespace().is_some() && e.peer() == Some(peer_key(8)),
            };
            (res.map_err(|e| format!("{e:?}")), ns_seen, outcome.num_sent, if attributed { 1 } else { 0 })
        });
        play(remote, &w, seq, rng, false).await;
        let mut unattributed: Option<String> = None;
        let allowed_init = (ci == 0 || ci == 4) && seq.first().map(|l| LETTERS[*l].starts_with("init") && LETTERS[*l] != "init-unknown-doc").unwrap_or(false);
        let end = finish(task, &h, ns, |(r, _, _, attributed)| match r {
            Ok(_) => End::Ok,
            Err(e) => {
                if attributed == 0 {
                    unattributed = Some(e.clone());
                }
                End::Err(e)
            }
        })
        .await;
        ctx.count("acceptor_runs", 1);
        // once a request was allowed, a failure of the session must still say which document and
        // peer it was about ("the accepting side can always report its outcome")
        if allowed_init {
            ctx.count("allowed_sessions_checked_for_attribution", 1);
            if let Some(e) = unattributed {
                ctx.violation(case, "failed-accepted-session-does-not-name-document-and-peer", json!({"frames": names, "error": e}));
            }
        }
        judge(ctx, case, "acceptor", &names, cb, &end);
        match h.get_state(ns).await {
            Err(_) => ctx.violation(case, "store-actor-dead-after-session[acceptor]", json!({"frames": names, "accept": cb, "panic": format!("{:?}", crate::take_panic())})),
            Ok(_) => {
                // a request that is reported as declined (whatever the callback was) and a request
                // that the callback declined: nothing in the store has changed
                let declined = reported_declined.load(std::sync::atomic::Ordering::SeqCst);
                if declined {
                    ctx.count("sessions_reported_as_declined", 1);
                }
                if (1..=3).contains(&ci) || declined {
                    // a declined request changes nothing in the store
                    let after = Model::from_entries(act::dump(&h, ns).await.unwrap_or_default());
                    ctx.count("declined_requests_checked", 1);
                    if after != before {
                        ctx.violation(case, "declined-request-changed-the-store", json!({"frames": names, "accept": cb}));
                    }
                }
            }
        }
        let _ = h.shutdown().await;
    }
}

fn judge(ctx: &mut Ctx, case: u64, side: &str, names: &[&str], cb: &str, end: &End) {
    match end {
        End::Ok | End::Err(_) => {}
        End::Panicked(p) => {
            let what = if p.contains("codec.rs") && side == "acceptor" { "outcome-collection-or-session-panicked" } else { "session-panicked" };
            ctx.violation(case, &format!("{what}[{side}]"), json!({"frames": names, "accept": cb, "panic": p}));
        }
        End::Pending => ctx.violation(case, &format!("session-still-pending-after-streams-closed[{side}]"), json!({"frames": names, "accept": cb})),
    }
}

/// The scripted peer: optionally waits for the initiator's first frame, sends the frames, then
/// closes both directions.
async fn play(remote: DuplexStream, w: &World, seq: &[usize], rng: &mut Rng, wait_for_init: bool) {
    let (mut rr, mut rw) = tokio::io::split(remote);
    if wait_for_init {
        // read the length prefix and the body of the initiator's init frame (or give up on EOF)
        let mut len = [0u8; 4];
        if rr.read_exact(&mut len).await.is_ok() {
            let mut body = vec![0u8; u32::from_be_bytes(len) as usize];
            let _ = rr.read_exact(&mut body).await;
        }
    }
    // keep draining what the side under test sends, so that it never blocks on a full pipe
    let drain = tokio::spawn(async move {
        let mut buf = [0u8; 4096];
        while let Ok(n) = rr.read(&mut buf).await {
            if n == 0 {
                break;
            }
        }
    });
    for l in seq {
        let b = letter_bytes(w, LETTERS[*l], rng);
        if rw.write_all(&b).await.is_err() {
            break;
        }
        tokio::task::yield_now().await;
    }
    let _ = rw.shutdown().await;
    drop(rw);
    // the read half is closed once the peer under test is done or after a grace period
    let _ = tokio::time::timeout(Duration::from_secs(5), drain).await;
}

// ---------------------------------------------------------------------------------------------
// real <-> real sessions with a fault injected before message k

#[derive(Clone, Copy, Debug, PartialEq)]
pub enum Fault {
    None,
    CloseReplica,
    SyncOff,
    ShutdownActor,
    CutStream,
    CutInsideFrame,
    /// the stream ends one to three bytes into a frame's length prefix
    CutInsideLengthPrefix,
}

fn run_faults(ctx: &mut Ctx) {
    let rt = act::runtime(2);
    for case in ctx.cases(40, 1_200) {
        let mut rng = ctx.rng(case);
        rt.block_on(fault_case(ctx, case, &mut rng));
    }
}

pub struct SessionEnds {
    pub alice: End,
    pub bob: End,
    pub counts: Option<((usize, usize), (usize, usize))>,
    pub frames_forwarded: usize,
    /// the frames forwarded, in order: (sent by the initiator?, length prefix and body)
    pub frames: Vec<(bool, Vec<u8>)>,
}

pub async fn one_session(ha: &SyncHandle, hb: &SyncHandle, ns: NamespaceId, fault: Fault, at: usize, on_alice: bool) -> SessionEnds {
    let (a_local, a_remote) = tokio::io::duplex(1 << 16);
    let (b_local, b_remote) = tokio::io::duplex(1 << 16);
    let (mut alr, mut alw) = tokio::io::split(a_local);
    let (blr, blw) = tokio::io::split(b_local);
    let ha2 = ha.clone();
    let hb2 = hb.clone();
    let alice = tokio::spawn(async move { run_alice(&mut alw, &mut alr, &ha2, ns, peer_key(2)).await.map(|o| (o.num_sent, o.num_recv)).map_err(|e| format!("{e:?}")) });
    let bob = tokio::spawn(async move {
        let mut state = BobState::new(peer_key(1));
        let res = state.run(blw, blr, hb2, |_n, _p| async { AcceptOutcome::Allow }).await;
        let outcome = state.into_outcome();
        res.map(|_| (outcome.num_sent, outcome.num_recv)).map_err(|e| format!("{e:?}"))
    });
    // proxy: forwards whole frames, alternating directions as they arrive; the fault is applied
    // before frame number `at` (counted over both directions) is forwarded
    let (mut arr, mut arw) = tokio::io::split(a_remote);
    let (mut brr, mut brw) = tokio::io::split(b_remote);
    let victim = if on_alice { ha.clone() } else { hb.clone() };
    let mut forwarded = 0usize;
    let mut frames: Vec<(bool, Vec<u8>)> = vec![];
    let proxy = async {
        let mut a_open = true;
        let mut b_open = true;
        loop {
            if !a_open && !b_open {
                break;
            }
            // read one frame from whichever side has one
            let mut la = [0u8; 4];
            let mut lb = [0u8; 4];
            let (from_a, len) = tokio::select! {
                r = arr.read_exact(&mut la), if a_open => match r { Ok(_) => (true, u32::from_be_bytes(la) as usize), Err(_) => { a_open = false; let _ = brw.shutdown().await; continue; } },
                r = brr.read_exact(&mut lb), if b_open => match r { Ok(_) => (false, u32::from_be_bytes(lb) as usize), Err(_) => { b_open = false; let _ = arw.shutdown().await; continue; } },
            };
            let mut body = vec![0u8; len];
            let ok = if from_a { arr.read_exact(&mut body).await.is_ok() } else { brr.read_exact(&mut body).await.is_ok() };
            if !ok {
                break;
            }
            if forwarded == at {
                match fault {
                    Fault::None => {}
                    Fault::CloseReplica => {
                        let _ = victim.close(ns).await;
                    }
                    Fault::SyncOff => {
                        let _ = victim.set_sync(ns, false).await;
                    }
                    Fault::ShutdownActor => {
                        let _ = victim.shutdown().await;
                    }
                    Fault::CutStream => break,
                    Fault::CutInsideFrame => {
                        let mut f = (len as u32).to_be_bytes().to_vec();
                        f.extend_from_slice(&body[..len / 2]);
                        let _ = if from_a { brw.write_all(&f).await } else { arw.write_all(&f).await };
                        break;
                    }
                    Fault::CutInsideLengthPrefix => {
                        let f = (len as u32).to_be_bytes();
                        let n = 1 + (len % 3);
                        let _ = if from_a { brw.write_all(&f[..n]).await } else { arw.write_all(&f[..n]).await };
                        break;
                    }
                }
            }
            let mut f = (len as u32).to_be_bytes().to_vec();
            f.extend_from_slice(&body);
            let w = if from_a { brw.write_all(&f).await } else { arw.write_all(&f).await };
            if w.is_err() {
                break;
            }
            frames.push((from_a, f));
            forwarded += 1;
        }
        let _ = arw.shutdown().await;
        let _ = brw.shutdown().await;
    };
    let _ = tokio::time::timeout(Duration::from_secs(30), proxy).await;
    drop((arr, arw, brr, brw));
    let probe_a = ha.clone();
    let probe_b = hb.clone();
    let a_end_raw = finish(alice, &probe_a, ns, |r| match r {
        Ok(c) => End::Err(format!("OK{}:{}", c.0, c.1)),
        Err(e) => End::Err(e),
    })
    .await;
    let b_end_raw = finish(bob, &probe_b, ns, |r| match r {
        Ok(c) => End::Err(format!("OK{}:{}", c.0, c.1)),
        Err(e) => End::Err(e),
    })
    .await;
    let parse = |e: &End| -> Option<(usize, usize)> {
        if let End::Err(s) = e {
            if let Some(rest) = s.strip_prefix("OK") {
                let (a, b) = rest.split_once(':')?;
                return Some((a.parse().ok()?, b.parse().ok()?));
            }
        }
        None
    };
    let (ca, cb) = (parse(&a_end_raw), parse(&b_end_raw));
    let fix = |e: End, c: Option<(usize, usize)>| if c.is_some() { End::Ok } else { e };
    SessionEnds { alice: fix(a_end_raw, ca), bob: fix(b_end_raw, cb), counts: ca.zip(cb), frames_forwarded: forwarded, frames }
}

async fn fault_case(ctx: &mut Ctx, case: u64, rng: &mut Rng) {
    let uni = Universe::new(rng, 1);
    let ns = uni.ns.id();
    let na = rng.range(0, 12);
    let nb = rng.range(0, 12);
    let ea = uni.entries(rng, na, 3);
    let eb = uni.entries(rng, nb, 3);
    let mk = |es: &[SignedEntry]| store_with(&uni, es, None);
    // fault-free run: transcript length and convergence
    let (ha, hb) = (act::spawn(mk(&ea)), act::spawn(mk(&eb)));
    for h in [&ha, &hb] {
        let _ = h.open(ns, OpenOpts::default().sync()).await;
    }
    let a0 = Model::from_entries(act::dump(&ha, ns).await.unwrap_or_default());
    let b0 = Model::from_entries(act::dump(&hb, ns).await.unwrap_or_default());
    let base = one_session(&ha, &hb, ns, Fault::None, usize::MAX, true).await;
    ctx.eval();
    ctx.count("fault_free_sessions", 1);
    let detail = |extra: serde_json::Value| json!({"a0": a0.short(), "b0": b0.short(), "extra": extra});
    if base.alice != End::Ok || base.bob != End::Ok {
        ctx.violation(case, "fault-free-session-did-not-succeed", detail(json!({"alice": format!("{:?}", base.alice), "bob": format!("{:?}", base.bob)})));
    } else {
        let (ca, cb) = base.counts.unwrap();
        if ca.0 != cb.1 || ca.1 != cb.0 {
            ctx.violation(case, "sent-received-counts-not-mirrored", detail(json!({"alice": ca, "bob": cb})));
        }
        let a1 = Model::from_entries(act::dump(&ha, ns).await.unwrap_or_default());
        let b1 = Model::from_entries(act::dump(&hb, ns).await.unwrap_or_default());
        if a1 != b1 || a1 != Model::join(&a0, &b0) {
            ctx.violation(case, "fault-free-session-did-not-converge", detail(json!({"a1": a1.short(), "b1": b1.short()})));
        }
    }
    // the final sets of the fault-free run, for the pipelined replays below
    let a_ref = Model::from_entries(act::dump(&ha, ns).await.unwrap_or_default());
    let b_ref = Model::from_entries(act::dump(&hb, ns).await.unwrap_or_default());
    let _ = ha.shutdown().await;
    let _ = hb.shutdown().await;
    // A peer that does not wait for the replies (added after seeded change agent-C10-8): the frames one
    // side sent in the fault-free run are written again to a fresh instance of the other side, all at
    // once or in 2..4 chunks cut at arbitrary bytes, so that one read picks up several frames or a frame
    // and a half. The replies of a side depend on its state and on the frames it gets, not on how they
    // are cut, so the side under test must end exactly as it did in the fault-free run: success, the
    // same counts (they mirror what the peer sent and received), the same final set.
    if base.alice == End::Ok && base.bob == End::Ok && !base.frames.is_empty() {
        let (ca, cb) = base.counts.unwrap();
        for from_a in [true, false] {
            let mine: Vec<&Vec<u8>> = base.frames.iter().filter(|f| f.0 == from_a).map(|f| &f.1).collect();
            if mine.len() < 2 {
                continue;
            }
            let all: Vec<u8> = mine.iter().flat_map(|f| f.iter().copied()).collect();
            let variants = if ctx.is_quick() { 2 } else { 4 };
            for v in 0..variants {
                let mut cuts: Vec<usize> = if v == 0 { vec![] } else { (0..rng.range(1, 3)).map(|_| rng.below(all.len())).collect() };
                cuts.sort();
                cuts.dedup();
                let h = act::spawn(mk(if from_a { &eb } else { &ea }));
                let _ = h.open(ns, OpenOpts::default().sync()).await;
                let (local, remote) = tokio::io::duplex(1 << 20);
                let (mut lr, mut lw) = tokio::io::split(local);
                let h2 = h.clone();
                let task = tokio::spawn(async move {
                    if from_a {
                        let mut state = BobState::new(peer_key(1));
                        let res = state.run(lw, lr, h2, |_n, _p| async { AcceptOutcome::Allow }).await;
                        let o = state.into_outcome();
                        res.map(|_| (o.num_sent, o.num_recv)).map_err(|e| format!("{e:?}"))
                    } else {
                        run_alice(&mut lw, &mut lr, &h2, ns, peer_key(2)).await.map(|o| (o.num_sent, o.num_recv)).map_err(|e| format!("{e:?}"))
                    }
                });
                let (mut rr, mut rw) = tokio::io::split(remote);
                if !from_a {
                    // an acceptor speaks after the request
                    let mut len = [0u8; 4];
                    if rr.read_exact(&mut len).await.is_ok() {
                        let mut body = vec![0u8; u32::from_be_bytes(len) as usize];
                        let _ = rr.read_exact(&mut body).await;
                    }
                }
                let drain = tokio::spawn(async move {
                    let mut buf = [0u8; 4096];
                    while let Ok(n) = rr.read(&mut buf).await {
                        if n == 0 {
                            break;
                        }
                    }
                });
                let mut at = 0;
                for c in cuts.iter().copied().chain([all.len()]) {
                    if c > at {
                        let _ = rw.write_all(&all[at..c]).await;
                        let _ = rw.flush().await;
                        at = c;
                        for _ in 0..3 {
                            tokio::task::yield_now().await;
                        }
                    }
                }
                let _ = rw.shutdown().await;
                let end = finish(task, &h, ns, |r| match r {
                    Ok(c) => End::Err(format!("OK{}:{}", c.0, c.1)),
                    Err(e) => End::Err(e),
                })
                .await;
                drop(rw);
                let _ = tokio::time::timeout(Duration::from_secs(5), drain).await;
                let side = if from_a { "acceptor" } else { "initiator" };
                ctx.count(&format!("pipelined_peer_runs[{side}]"), 1);
                ctx.count("frames_written_without_waiting", mine.len() as u64);
                let expect = if from_a { cb } else { ca };
                let d = |extra: serde_json::Value| json!({"a0": a0.short(), "b0": b0.short(), "side_under_test": side, "frames_of_the_peer": mine.len(), "chunk_cuts": cuts, "extra": extra});
                match &end {
                    End::Err(s) if s.starts_with("OK") => {
                        if *s != format!("OK{}:{}", expect.0, expect.1) {
                            ctx.violation(case, &format!("counts-differ-when-the-peer-does-not-wait[{side}]"), d(json!({"got": s, "fault_free_sent_recv": expect})));
                        }
                    }
                    End::Err(e) => ctx.violation(case, &format!("session-fails-when-the-peer-does-not-wait[{side}]"), d(json!({"error": e}))),
                    End::Ok => {}
                    End::Panicked(p) => ctx.violation(case, &format!("session-panicked[{side}][pipelined]"), d(json!({"panic": p}))),
                    End::Pending => ctx.violation(case, &format!("session-still-pending-after-streams-closed[{side}][pipelined]"), d(json!({}))),
                }
                let got = Model::from_entries(act::dump(&h, ns).await.unwrap_or_default());
                if got != *(if from_a { &b_ref } else { &a_ref }) {
                    ctx.violation(case, &format!("final-set-differs-when-the-peer-does-not-wait[{side}]"), d(json!({"got": got.short()})));
                }
                let _ = h.shutdown().await;
            }
        }
    }
    // A peer whose clock is ahead (added after seeded change agent-C10-9): one pair in three is also
    // run with the initiator holding 1..3 entries it accepted while its clock was half an hour ahead.
    // The acceptor refuses them (more than ten minutes in the future); the session still succeeds on
    // both sides, and what one side counts as sent the other counts as received, refused or not.
    if case % 3 == 0 {
        let now = std::time::SystemTime::now().duration_since(std::time::UNIX_EPOCH).unwrap().as_micros() as u64;
        let n_future = rng.range(1, 3);
        let future: Vec<SignedEntry> = (0..n_future).map(|i| uni.entry(rng.below(uni.authors.len()), &[b'z', i as u8], now + 1_800_000_000 + i as u64, Some(i % 4))).collect();
        let mut sa = mk(&ea);
        iroh_docs::verif::set_clock(now + 1_800_000_000);
        for e in &future {
            offer_remote(&mut sa, ns, e);
        }
        iroh_docs::verif::set_clock(0);
        let (ha, hb) = (act::spawn(sa), act::spawn(mk(&eb)));
        for h in [&ha, &hb] {
            let _ = h.open(ns, OpenOpts::default().sync()).await;
        }
        let held = act::dump(&ha, ns).await.unwrap_or_default().iter().filter(|e| e.timestamp() > now + 600_000_000).count();
        let r = one_session(&ha, &hb, ns, Fault::None, usize::MAX, true).await;
        ctx.count("sessions_with_the_initiator_clock_ahead", 1);
        let d = |extra: serde_json::Value| json!({"a0": a0.short(), "b0": b0.short(), "entries_from_the_future_held_by_the_initiator": held, "extra": extra});
        if r.alice != End::Ok || r.bob != End::Ok {
            ctx.violation(case, "session-with-refused-entries-did-not-succeed", d(json!({"alice": format!("{:?}", r.alice), "bob": format!("{:?}", r.bob)})));
        } else if let Some((ca, cb)) = r.counts {
            if ca.0 != cb.1 || ca.1 != cb.0 {
                ctx.violation(case, "sent-received-counts-not-mirrored[entries refused by the receiver]", d(json!({"alice": ca, "bob": cb})));
            }
            let b1 = act::dump(&hb, ns).await.unwrap_or_default();
            if b1.iter().any(|e| e.timestamp() > now + 600_000_000) {
                ctx.violation(case, "entry-from-the-future-stored-by-the-acceptor", d(json!({})));
            } else if held > 0 {
                ctx.count("sessions_in_which_the_acceptor_refused_entries", 1);
            }
        }
        let _ = ha.shutdown().await;
        let _ = hb.shutdown().await;
    }
    let k = base.frames_forwarded;
    ctx.distinct("transcript_lengths", k as u64);
    if k >= 3 {
        ctx.nontrivial(h64(format!("{:?}{:?}", a0.short(), b0.short()).as_bytes()));
    }
    if ctx.want_sample() {
        ctx.sample(json!({"case": case, "mode": "faults", "a0": a0.short(), "b0": b0.short(), "frames": k}));
    }
    // every fault position
    for at in 0..=k.min(12) {
        for fault in [Fault::CloseReplica, Fault::SyncOff, Fault::ShutdownActor, Fault::CutStream, Fault::CutInsideFrame, Fault::CutInsideLengthPrefix] {
            for on_alice in [true, false] {
                if matches!(fault, Fault::CutStream | Fault::CutInsideFrame | Fault::CutInsideLengthPrefix) && !on_alice {
                    continue; // the cut is symmetric
                }
                let (ha, hb) = (act::spawn(mk(&ea)), act::spawn(mk(&eb)));
                for h in [&ha, &hb] {
                    let _ = h.open(ns, OpenOpts::default().sync()).await;
                }
                let r = one_session(&ha, &hb, ns, fault, at, on_alice).await;
                ctx.count(&format!("fault_runs[{fault:?}]"), 1);
                let d = |extra: serde_json::Value| json!({"a0": a0.short(), "b0": b0.short(), "fault": format!("{fault:?}"), "before_frame": at, "on": if on_alice {"initiator"} else {"acceptor"}, "extra": extra});
                for (side, end) in [("initiator", &r.alice), ("acceptor", &r.bob)] {
                    match end {
                        End::Ok | End::Err(_) => {}
                        End::Panicked(p) => {
                            let what = if side == "acceptor" && p.contains("codec.rs") { "outcome-collection-or-session-panicked" } else { "session-panicked" };
                            ctx.violation(case, &format!("{what}[{side}][{fault:?}]"), d(json!({"panic": p})));
                        }
                        End::Pending => ctx.violation(case, &format!("session-still-pending-after-streams-closed[{side}][{fault:?}]"), d(json!({}))),
                    }
                }
                if let Some((ca, cb)) = r.counts {
                    if ca.0 != cb.1 || ca.1 != cb.0 {
                        // A clean end-of-stream at a frame boundary is indistinguishable from completion
                        // in this protocol (EOF is the end marker), and only this harness's in-memory
                        // pipe can produce it in both directions mid-session; the mirror equation is
                        // therefore judged only when the streams were not cut (DESIGN §5 C10).
                        if fault == Fault::CutStream {
                            ctx.count("clean_cut_both_sides_ok_with_unmirrored_counts(observed,not judged)", 1);
                            let _ = ha.shutdown().await;
                            let _ = hb.shutdown().await;
                            continue;
                        }
                        let sig = "sent-received-counts-not-mirrored";
                        ctx.violation(case, sig, d(json!({"alice": ca, "bob": cb})));
                    }
                }
                // the actor that was not shut down still answers
                for (name, h, shut) in [("initiator", &ha, fault == Fault::ShutdownActor && on_alice), ("acceptor", &hb, fault == Fault::ShutdownActor && !on_alice)] {
                    if !shut {
                        let alive = tokio::time::timeout(Duration::from_secs(10), h.get_state(ns)).await;
                        let closed_by_fault = fault == Fault::CloseReplica && ((name == "initiator") == on_alice);
                        if !matches!(alive, Ok(Ok(_))) && !closed_by_fault {
                            ctx.violation(case, &format!("store-actor-not-answering-after-session[{name}]"), d(json!({"panic": format!("{:?}", crate::take_panic())})));
                        }
                    }
                }
                let _ = ha.shutdown().await;
                let _ = hb.shutdown().await;
            }
        }
    }
}

// ---------------------------------------------------------------------------------------------
// requests racing with the shutdown of the store actor: every request ends (reply or error)

fn run_shutdown_race(ctx: &mut Ctx) {
    let rt = act::runtime(4);
    for case in ctx.cases(150, 20_000) {
        let mut rng = ctx.rng(case);
        let n_clients = rng.range(2, 6);
        let delay_us = rng.below(400) as u64;
        let uni = Universe::with(namespace(1), 2);
        let ns = uni.ns.id();
        let res = rt.block_on(async {
            let h = act::spawn(store_with(&uni, &[], None));
            let _ = h.open(ns, OpenOpts::default().sync()).await;
            let mut tasks = vec![];
            for _ in 0..n_clients {
                let h = h.clone();
                tasks.push(tokio::spawn(async move {
                    let mut answered = 0u64;
                    loop {
                        match h.get_state(ns).await {
                            Ok(_) => answered += 1,
                            Err(_) => break,
                        }
                        if answered > 200_000 {
                            break;
                        }
                    }
                    answered
                }));
            }
            tokio::time::sleep(Duration::from_micros(delay_us)).await;
            let _store = h.shutdown().await;
            // the actor is gone: every client must now see an error, none may wait forever
            let mut stuck = 0;
            let mut answered = 0;
            for t in tasks {
                tokio::pin!(t);
                match tokio::time::timeout(Duration::from_secs(15), &mut t).await {
                    Ok(Ok(n)) => answered += n,
                    Ok(Err(_)) => {}
                    Err(_) => {
                        stuck += 1;
                        t.abort();
                    }
                }
            }
            (stuck, answered)
        });
        ctx.eval();
        ctx.count("shutdown_races", 1);
        ctx.count("requests_answered_before_shutdown", res.1);
        if res.1 > 0 {
            ctx.nontrivial(h64(format!("{case}:{}:{}", n_clients, res.1).as_bytes()));
        }
        if res.0 > 0 {
            ctx.violation(case, "request-never-answered-after-actor-shutdown", json!({"clients": n_clients, "stuck": res.0, "shutdown_after_us": delay_us}));
        }
        if ctx.want_sample() {
            ctx.sample(json!({"case": case, "mode": "shutdown-race", "clients": n_clients, "answered_before_shutdown": res.1}));
        }
    }
}
