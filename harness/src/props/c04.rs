//! C04 — a swarm of replicas is eventually consistent despite loss, dups and reordering.
//!
//! Liveness is decided in its bounded-progress form: after faults stop, rounds of complete
//! sessions over a connected pair set are repeated; a round that transfers nothing must occur
//! within diameter+2 rounds, and then all replicas must equal the merge of all accepted writes.

use std::collections::{BTreeSet, VecDeque};

use iroh_docs::{
    actor::{OpenOpts, SyncHandle},
    store::Store,
    ContentStatus, NamespaceId, SignedEntry,
};
use serde_json::json;

use crate::{
    act,
    ctx::Ctx,
    gen::{key, unique_content, Universe},
    model::{Model, E},
    props::c10::{one_session, End, Fault},
    rng::{h64, Rng},
    session,
    util::{block_on, dump_model, import_write, new_store, Backend, Offered, Scratch},
};

const MIN4: u64 = 240_000_000;

fn pairs_for(rng: &mut Rng, n: usize) -> (Vec<(usize, usize)>, &'static str) {
    match rng.below(4) {
        0 => ((0..n - 1).map(|i| (i, i + 1)).collect(), "line"),
        1 => ((1..n).map(|i| (0, i)).collect(), "star"),
        2 if n > 2 => ((0..n).map(|i| (i, (i + 1) % n)).collect(), "ring"),
        _ => ((1..n).map(|i| (rng.below(i), i)).collect(), "random-tree"),
    }
}

fn diameter(n: usize, pairs: &[(usize, usize)]) -> usize {
    let mut best = 0;
    for s in 0..n {
        let mut dist = vec![usize::MAX; n];
        dist[s] = 0;
        let mut q = VecDeque::from([s]);
        while let Some(u) = q.pop_front() {
            for &(a, b) in pairs {
                for (x, y) in [(a, b), (b, a)] {
                    if x == u && dist[y] == usize::MAX {
                        dist[y] = dist[u] + 1;
                        q.push_back(y);
                    }
                }
            }
        }
        best = best.max(dist.into_iter().filter(|d| *d != usize::MAX).max().unwrap_or(0));
    }
    best
}

pub fn run(ctx: &mut Ctx) {
    let mode = ctx.mode.clone().unwrap_or_else(|| "light".into());
    if mode == "actor" {
        let rt = act::runtime(2);
        for case in ctx.cases(300, 10_000) {
            let mut rng = ctx.rng(case);
            rt.block_on(actor_case(ctx, case, &mut rng));
            iroh_docs::verif::set_clock(0);
        }
    } else {
        let scratch = Scratch::new();
        for case in ctx.cases(800, 60_000) {
            let mut rng = ctx.rng(case);
            light_case(ctx, case, &mut rng, &scratch);
            iroh_docs::verif::set_clock(0);
        }
    }
}

struct Node {
    store: Store,
    path: Option<std::path::PathBuf>,
    skew: i64,
}

fn clock_of(base: u64, skew: i64, tick: u64) -> u64 {
    (base as i64 + skew) as u64 + tick
}

fn light_case(ctx: &mut Ctx, case: u64, rng: &mut Rng, scratch: &Scratch) {
    let uni = Universe::new(rng, 1);
    let ns = uni.ns.id();
    let base = uni.t0;
    let n = rng.range(2, 5);
    let mut nodes: Vec<Node> = (0..n)
        .map(|_| {
            let backend = if rng.chance(1, 6) { Backend::File } else { Backend::Memory };
            let (mut store, path) = new_store(backend, scratch);
            import_write(&mut store, &uni.ns);
            for a in &uni.authors {
                store.import_author(a.clone()).unwrap();
            }
            // skews: mostly large, sometimes zero or one microsecond apart, so that different
            // replicas also produce *equal* timestamps for the same key
            let skew = match rng.below(4) {
                0 => 0,
                1 => rng.below(3) as i64 - 1,
                _ => rng.below((2 * MIN4) as usize + 1) as i64 - MIN4 as i64,
            };
            Node { store, path, skew }
        })
        .collect();
    let mut written: Vec<SignedEntry> = vec![];
    let mut written_set: BTreeSet<Vec<u8>> = BTreeSet::new();
    let mut pending: Vec<(SignedEntry, usize)> = vec![];
    let mut keys: Vec<Vec<u8>> = vec![];
    let mut trace: Vec<String> = vec![];
    let mut uniq = case * 1000;
    let mut tick = 0u64;
    let mut faults = 0;
    let events = rng.range(8, if ctx.is_quick() { 60 } else { 120 });
    ctx.eval();
    // The safety observation below reads full dumps, and a full dump commits the store's open write
    // batch. One history in three is therefore observed sparsely, so that writes, deliveries,
    // sessions and a refused call share one uncommitted batch (added after seeded change agent-C04-7).
    let sparse = case % 3 == 1;
    if sparse {
        ctx.count("histories_observed_sparsely", 1);
    }
    let missing_doc = iroh_docs::NamespaceSecret::from_bytes(&[0xD7; 32]).id();
    for _ in 0..events {
        // the logical clock does not always advance between events (same-tick writes)
        if rng.chance(2, 3) {
            tick += 1;
        }
        match rng.below(11) {
            10 => {
                // a call that the store must refuse (it names a document the store does not have):
                // what a late completion does after its document was dropped. It must not cost any
                // replica an accepted write
                let i = rng.below(n);
                let refused = if rng.chance(1, 2) {
                    nodes[i].store.set_download_policy(&missing_doc, iroh_docs::store::DownloadPolicy::default()).is_err()
                } else {
                    nodes[i].store.register_useful_peer(missing_doc, [7u8; 32]).is_err()
                };
                if refused {
                    ctx.count("refused_calls_between_writes", 1);
                    trace.push(format!("n{i}: a call for a missing document is refused"));
                }
            }
            0..=3 => {
                // local write
                let i = rng.below(n);
                let a = rng.below(uni.authors.len());
                let k = if !keys.is_empty() && rng.chance(1, 3) { rng.pick(&keys).clone() } else { key(rng, &keys, 3) };
                keys.push(k.clone());
                let now = clock_of(base, nodes[i].skew, tick);
                iroh_docs::verif::set_clock(now);
                let del = rng.chance(1, 4);
                uniq += 1;
                let (mut h, mut l) = unique_content(uniq);
                // now and then a local write with inconsistent content arguments (the empty-blob hash
                // with a length, or a content hash with length 0). Whatever the replica answers is
                // taken at its word: if the write is accepted it counts as accepted and must reach
                // every replica like any other
                match rng.below(24) {
                    0 => h = iroh_blobs::Hash::EMPTY,
                    1 => l = 0,
                    _ => {}
                }
                let mut r = match nodes[i].store.open_replica(&ns) {
                    Ok(r) => r,
                    Err(e) => {
                        ctx.violation(case, "replica-lost-its-document", json!({"replica": i, "err": format!("{e:?}"), "trace": trace}));
                        return;
                    }
                };
                let res = if del { block_on(r.delete_prefix(&k, &uni.authors[a])) } else { block_on(r.insert(&k, &uni.authors[a], h, l)) };
                drop(r);
                nodes[i].store.close_replica(ns);
                if res.is_ok() {
                    let e = nodes[i].store.get_exact(ns, uni.authors[a].id(), &k, true).unwrap().expect("acknowledged write readable");
                    trace.push(format!("n{i} writes {}", E::of(&e).short()));
                    written_set.insert(postcard::to_stdvec(&e).unwrap());
                    for j in 0..n {
                        if j != i {
                            pending.push((e.clone(), j));
                        }
                    }
                    written.push(e);
                    ctx.count("accepted_local_writes", 1);
                }
            }
            4 | 5 => {
                // broadcast: deliver / drop / duplicate, in any order
                if pending.is_empty() {
                    continue;
                }
                let idx = rng.below(pending.len());
                match rng.below(5) {
                    0 => {
                        pending.swap_remove(idx);
                        faults += 1;
                        ctx.count("broadcasts_dropped", 1);
                    }
                    1 => {
                        let p = pending[idx].clone();
                        pending.push(p);
                        faults += 1;
                        ctx.count("broadcasts_duplicated", 1);
                    }
                    _ => {
                        let (e, j) = pending.swap_remove(idx);
                        iroh_docs::verif::set_clock(clock_of(base, nodes[j].skew, tick));
                        let r = crate::util::offer_remote(&mut nodes[j].store, ns, &e);
                        ctx.count("broadcasts_delivered", 1);
                        if let Offered::Rejected(why) = r {
                            ctx.violation(case, "accepted-write-refused-by-another-replica", json!({"entry": E::of(&e).short(), "why": why, "trace": trace}));
                            return;
                        }
                    }
                }
            }
            6 | 7 => {
                // a session, possibly cut after k messages
                let i = rng.below(n);
                let mut j = rng.below(n);
                if i == j {
                    j = (j + 1) % n;
                }
                let cut = if rng.chance(1, 2) { Some(rng.range(1, 5)) } else { None };
                iroh_docs::verif::set_clock(base - MIN4);
                let (a, b) = two(&mut nodes, i, j);
                let r = session::run(&mut a.store, &mut b.store, ns, None, None, cut.unwrap_or(400));
                trace.push(format!("session n{i}->n{j} cut={cut:?} msgs={}", r.transcript.len()));
                if cut.is_some() && r.exceeded_budget {
                    faults += 1;
                    ctx.count("sessions_cut", 1);
                } else {
                    ctx.count("sessions_complete_during_faults", 1);
                }
                if let Some(e) = r.error {
                    ctx.violation(case, "session-error", json!({"err": e, "trace": trace}));
                    return;
                }
            }
            _ => {
                // restart from disk
                let i = rng.below(n);
                if let Some(p) = nodes[i].path.clone() {
                    let old = std::mem::replace(&mut nodes[i].store, Store::memory());
                    drop(old); // drop flushes
                    nodes[i].store = Store::persistent(&p).expect("reopen");
                    trace.push(format!("n{i} restarts"));
                    faults += 1;
                    ctx.count("restarts", 1);
                }
            }
        }
        // at every step (sparse histories: one step in six): nothing that nobody wrote
        if sparse && !rng.chance(1, 6) {
            continue;
        }
        for (i, nd) in nodes.iter_mut().enumerate() {
            let d = dump_model(&mut nd.store, ns).unwrap();
            for e in d.map.values() {
                if !written_set.contains(&postcard::to_stdvec(e).unwrap()) {
                    ctx.violation(case, "replica-holds-entry-nobody-wrote", json!({"replica": i, "entry": E::of(e).short(), "trace": trace}));
                    return;
                }
            }
        }
    }
    // ---- faults stop: closing rounds
    let (pairs, shape) = pairs_for(rng, n);
    let bound = diameter(n, &pairs) + 2;
    iroh_docs::verif::set_clock(base - MIN4);
    let mut quiet_at = None;
    for round in 0..bound + 3 {
        let mut transferred = 0;
        for &(i, j) in &pairs {
            let (x, y) = if rng.chance(1, 2) { (i, j) } else { (j, i) };
            let (a, b) = two(&mut nodes, x, y);
            let r = session::run(&mut a.store, &mut b.store, ns, None, None, 2000);
            if r.error.is_some() || r.exceeded_budget {
                ctx.violation(case, "closing-session-failed", json!({"err": format!("{:?}", r.error), "exceeded": r.exceeded_budget, "trace": trace}));
                return;
            }
            transferred += r.values_per_message.iter().sum::<usize>();
            ctx.count("closing_sessions", 1);
        }
        if transferred == 0 {
            quiet_at = Some(round);
            break;
        }
    }
    ctx.distinct("topologies", h64(format!("{shape}{n}").as_bytes()));
    let expected = Model::closed_form(&written);
    let dumps: Vec<Model> = nodes.iter_mut().map(|nd| dump_model(&mut nd.store, ns).unwrap()).collect();
    let detail = |extra: serde_json::Value| {
        json!({"replicas": n, "pairs": format!("{pairs:?}"), "shape": shape, "expected": expected.short(),
            "dumps": dumps.iter().map(|d| d.short()).collect::<Vec<_>>(), "trace": trace, "extra": extra})
    };
    match quiet_at {
        None => {
            ctx.violation(case, "no-quiet-round-within-bound", detail(json!({"bound": bound})));
            return;
        }
        Some(r) if r > bound => {
            ctx.violation(case, "no-quiet-round-within-bound", detail(json!({"bound": bound, "quiet_at": r})));
            return;
        }
        Some(r) => ctx.distinct("rounds_to_quiescence", r as u64),
    }
    if dumps.iter().any(|d| *d != dumps[0]) {
        ctx.violation(case, "replicas-differ-at-quiescence", detail(json!({})));
        return;
    }
    if dumps[0] != expected {
        ctx.violation(case, "quiescent-state-is-not-the-merge-of-accepted-writes", detail(json!({})));
        return;
    }
    if faults > 0 && written.len() >= 2 {
        ctx.nontrivial(h64(format!("{trace:?}").as_bytes()));
    }
    if ctx.want_sample() {
        ctx.sample(json!({"case": case, "mode": "light", "replicas": n, "closing_pairs": shape, "history": trace, "final": expected.short()}));
    }
}

fn two(nodes: &mut [Node], i: usize, j: usize) -> (&mut Node, &mut Node) {
    assert!(i != j);
    if i < j {
        let (a, b) = nodes.split_at_mut(j);
        (&mut a[i], &mut b[0])
    } else {
        let (a, b) = nodes.split_at_mut(i);
        (&mut b[0], &mut a[j])
    }
}

async fn adump(h: &SyncHandle, ns: NamespaceId) -> Model {
    Model::from_entries(act::dump(h, ns).await.unwrap_or_default())
}

async fn actor_case(ctx: &mut Ctx, case: u64, rng: &mut Rng) {
    let uni = Universe::new(rng, 1);
    let ns = uni.ns.id();
    let base = uni.t0;
    let n = rng.range(2, 4);
    let mut hs = vec![];
    let mut skews = vec![];
    for _ in 0..n {
        let mut store = Store::memory();
        import_write(&mut store, &uni.ns);
        for a in &uni.authors {
            store.import_author(a.clone()).unwrap();
        }
        let h = act::spawn(store);
        let _ = h.open(ns, OpenOpts::default().sync()).await;
        hs.push(h);
        skews.push(rng.below((2 * MIN4) as usize + 1) as i64 - MIN4 as i64);
    }
    let mut written: Vec<SignedEntry> = vec![];
    let mut pending: Vec<(SignedEntry, usize)> = vec![];
    let mut keys = vec![];
    let mut trace = vec![];
    let mut uniq = case * 1000 + 500_000_000;
    let mut faults = 0;
    ctx.eval();
    for tick in 1..=rng.range(6, 30) as u64 {
        match rng.below(8) {
            0..=3 => {
                let i = rng.below(n);
                let a = rng.below(uni.authors.len());
                let k = key(rng, &keys, 3);
                keys.push(k.clone());
                iroh_docs::verif::set_clock(clock_of(base, skews[i], tick));
                uniq += 1;
                let (h, l) = unique_content(uniq);
                let r = if rng.chance(1, 4) {
                    hs[i].delete_prefix(ns, uni.authors[a].id(), k.clone().into()).await.map(|_| ())
                } else {
                    hs[i].insert_local(ns, uni.authors[a].id(), k.clone().into(), h, l).await
                };
                if r.is_ok() {
                    if let Ok(Some(e)) = hs[i].get_exact(ns, uni.authors[a].id(), k.clone().into(), true).await {
                        trace.push(format!("n{i} writes {}", E::of(&e).short()));
                        for j in 0..n {
                            if j != i {
                                pending.push((e.clone(), j));
                            }
                        }
                        written.push(e);
                    }
                }
            }
            4 | 5 => {
                if pending.is_empty() {
                    continue;
                }
                let idx = rng.below(pending.len());
                match rng.below(5) {
                    0 => {
                        pending.swap_remove(idx);
                        faults += 1;
                    }
                    1 => {
                        let p = pending[idx].clone();
                        pending.push(p);
                        faults += 1;
                    }
                    _ => {
                        let (e, j) = pending.swap_remove(idx);
                        iroh_docs::verif::set_clock(clock_of(base, skews[j], tick));
                        let r = hs[j].insert_remote(ns, e.clone(), [5u8; 32], ContentStatus::Complete).await;
                        if let Err(err) = r {
                            let m = format!("{err:#}");
                            if !m.contains("newer entry") && !m.contains("A newer entry") {
                                ctx.violation(case, "accepted-write-refused-by-another-replica", json!({"entry": E::of(&e).short(), "why": m, "mode": "actor", "trace": trace}));
                                return;
                            }
                        }
                    }
                }
            }
            _ => {
                let i = rng.below(n);
                let mut j = rng.below(n);
                if i == j {
                    j = (j + 1) % n;
                }
                iroh_docs::verif::set_clock(base - MIN4);
                let cut = rng.chance(1, 2);
                let at = rng.below(4);
                let r = one_session(&hs[i], &hs[j], ns, if cut { Fault::CutStream } else { Fault::None }, if cut { at } else { usize::MAX }, true).await;
                trace.push(format!("session n{i}->n{j} cut={} frames={}", cut, r.frames_forwarded));
                if cut {
                    faults += 1;
                }
                for (side, e) in [("initiator", &r.alice), ("acceptor", &r.bob)] {
                    if matches!(e, End::Panicked(_) | End::Pending) {
                        ctx.violation(case, &format!("session-did-not-end-cleanly[{side}]"), json!({"end": format!("{e:?}"), "trace": trace}));
                        return;
                    }
                }
            }
        }
    }
    // closing rounds over the real session drivers
    let (pairs, shape) = pairs_for(rng, n);
    let bound = diameter(n, &pairs) + 2;
    iroh_docs::verif::set_clock(base - MIN4);
    let mut quiet = false;
    for _ in 0..bound + 1 {
        let mut transferred = 0;
        for &(i, j) in &pairs {
            let r = one_session(&hs[i], &hs[j], ns, Fault::None, usize::MAX, true).await;
            ctx.count("closing_sessions_over_real_drivers", 1);
            match (&r.alice, &r.bob, r.counts) {
                (End::Ok, End::Ok, Some((ca, cb))) => {
                    transferred += ca.0 + ca.1;
                    if ca.0 != cb.1 || ca.1 != cb.0 {
                        ctx.violation(case, "sent-received-counts-not-mirrored", json!({"alice": ca, "bob": cb, "trace": trace}));
                        return;
                    }
                }
                other => {
                    ctx.violation(case, "closing-session-failed", json!({"ends": format!("{:?} {:?}", other.0, other.1), "mode": "actor", "trace": trace}));
                    return;
                }
            }
        }
        if transferred == 0 {
            quiet = true;
            break;
        }
    }
    let expected = Model::closed_form(&written);
    let mut dumps = vec![];
    for h in &hs {
        dumps.push(adump(h, ns).await);
    }
    for h in &hs {
        let _ = h.shutdown().await;
    }
    let detail = json!({"mode": "actor", "replicas": n, "shape": shape, "expected": expected.short(), "dumps": dumps.iter().map(|d| d.short()).collect::<Vec<_>>(), "trace": trace});
    if !quiet {
        ctx.violation(case, "no-quiet-round-within-bound", detail);
        return;
    }
    if dumps.iter().any(|d| *d != expected) {
        ctx.violation(case, if dumps.iter().any(|d| *d != dumps[0]) { "replicas-differ-at-quiescence" } else { "quiescent-state-is-not-the-merge-of-accepted-writes" }, detail);
        return;
    }
    if faults > 0 && written.len() >= 2 {
        ctx.nontrivial(h64(format!("{trace:?}").as_bytes()));
    }
    if ctx.want_sample() {
        ctx.sample(json!({"case": case, "mode": "actor", "replicas": n, "history": trace}));
    }
}
