//! C12 — subscribers see exactly one event per entry that actually entered the replica.

use iroh_docs::{
    actor::{OpenOpts, SyncHandle},
    store::Store,
    ContentStatus, Event, NamespaceId, SignedEntry, SyncOutcome,
};
use serde_json::json;

use crate::{
    act,
    ctx::Ctx,
    gen::{key, Universe},
    model::{Model, E},
    props::c15::{gen_policy, real, spec_matches, P},
    rng::{h64, Rng},
    util::{import_write, offer_remote},
    wire::{status_code, RawEntry, RawMessage, RawPart},
};

struct Sub {
    id: usize,
    tx: async_channel::Sender<Event>,
    rx: Option<async_channel::Receiver<Event>>, // None once dropped
    active: bool,                               // false after unsubscribe / drop
}

#[derive(Clone, Debug, PartialEq)]
struct Ev {
    local: bool,
    entry: SignedEntry,
    from: Option<[u8; 32]>,
    download: Option<bool>,
    status: Option<u8>,
    ns: NamespaceId,
}

fn ev(e: Event) -> Ev {
    match e {
        Event::LocalInsert { namespace, entry } => Ev { local: true, entry, from: None, download: None, status: None, ns: namespace },
        Event::RemoteInsert { namespace, entry, from, should_download, remote_content_status } => {
            Ev { local: false, entry, from: Some(from), download: if policy_unreadable() { None } else { Some(should_download) }, status: Some(status_code(remote_content_status)), ns: namespace }
        }
    }
}

fn status(i: usize) -> ContentStatus {
    [ContentStatus::Complete, ContentStatus::Incomplete, ContentStatus::Missing][i % 3]
}

pub fn run(ctx: &mut Ctx) {
    for case in ctx.cases(800, 60_000) {
        let mut rng = ctx.rng(case);
        let rt = act::runtime(1);
        if case % 8 == 7 {
            rt.block_on(slow_subscriber(ctx, case, &mut rng));
        } else {
            rt.block_on(one(ctx, case, &mut rng));
        }
        iroh_docs::verif::set_clock(0);
    }
}

/// Set while the policy row of the document under test cannot be decoded (see `one`): what the
/// download flag of an event should be is then left open and not compared.
static POLICY_UNREADABLE: std::sync::atomic::AtomicBool = std::sync::atomic::AtomicBool::new(false);
fn policy_unreadable() -> bool {
    POLICY_UNREADABLE.load(std::sync::atomic::Ordering::SeqCst)
}

/// Overwrite the stored download policy of `ns` with bytes that do not decode (plain redb).
fn corrupt_policy_row(path: &std::path::Path, ns: NamespaceId) -> anyhow::Result<()> {
    const POLICY: redb::TableDefinition<&[u8; 32], &[u8]> = redb::TableDefinition::new("download-policy-1");
    let db = redb::Database::create(path)?;
    let tx = db.begin_write()?;
    {
        let mut t = tx.open_table(POLICY)?;
        t.insert(ns.as_bytes(), &[0xFFu8, 0xFF, 0xFF, 0xFF, 0x7F][..])?;
    }
    tx.commit()?;
    Ok(())
}

async fn exact(h: &SyncHandle, ns: NamespaceId, e: &SignedEntry) -> Option<SignedEntry> {
    h.get_exact(ns, e.author(), e.key().to_vec().into(), true).await.ok().flatten()
}

async fn one(ctx: &mut Ctx, case: u64, rng: &mut Rng) {
    let uni = Universe::new(rng, 1);
    let ns = uni.ns.id();
    let mut store = Store::memory();
    // one document in four starts read-only (remote entries are accepted, local writes refused) and
    // is upgraded at some step while it is open and has subscribers
    let mut read_only = rng.chance(1, 4);
    if read_only {
        store.import_namespace(iroh_docs::Capability::Read(ns)).unwrap();
    } else {
        import_write(&mut store, &uni.ns);
    }
    for a in &uni.authors {
        store.import_author(a.clone()).unwrap();
    }
    // a second document in the same store actor, which now and then borrows a subscriber's channel
    // (one channel may be subscribed to several documents) and is then closed again
    let other_doc = iroh_docs::NamespaceSecret::from_bytes(&[0xC1; 32]);
    store.import_namespace(iroh_docs::Capability::Write(other_doc.clone())).unwrap();
    // One case in ten runs on a database file in which the stored policy of the document cannot be
    // decoded (a storage fault; added after seeded change agent-C12-8). Entries still enter the
    // replica, so each must still be announced; only the download flag is not judged until a policy
    // has been set again.
    POLICY_UNREADABLE.store(false, std::sync::atomic::Ordering::SeqCst);
    let scratch = crate::util::Scratch::new();
    if case % 10 == 3 {
        let path = scratch.path("c12-fault");
        let mut fs = Store::persistent(&path).expect("create");
        if read_only {
            fs.import_namespace(iroh_docs::Capability::Read(ns)).unwrap();
        } else {
            import_write(&mut fs, &uni.ns);
        }
        for a in &uni.authors {
            fs.import_author(a.clone()).unwrap();
        }
        fs.import_namespace(iroh_docs::Capability::Write(other_doc.clone())).unwrap();
        fs.flush().unwrap();
        drop(fs);
        if let Err(e) = corrupt_policy_row(&path, ns) {
            ctx.harness_error(format!("corrupting the policy row failed: {e:?}"));
            return;
        }
        store = Store::persistent(&path).expect("reopen");
        POLICY_UNREADABLE.store(true, std::sync::atomic::Ordering::SeqCst);
        ctx.count("cases_with_an_undecodable_policy_row", 1);
    }
    let h = act::spawn(store);
    let mut subs: Vec<Sub> = vec![];
    let mut next_sub = 0;
    let mut new_sub = |subs: &mut Vec<Sub>| {
        let (tx, rx) = async_channel::unbounded::<Event>();
        subs.push(Sub { id: next_sub, tx: tx.clone(), rx: Some(rx), active: true });
        next_sub += 1;
        tx
    };
    let opts = if rng.chance(1, 2) { OpenOpts::default().sync().subscribe(new_sub(&mut subs)) } else { OpenOpts::default().sync() };
    if h.open(ns, opts).await.is_err() {
        ctx.harness_error("open failed");
        return;
    }
    let mut policy: Option<P> = None;
    let mut tick = 0u64;
    let mut trace: Vec<String> = vec![];
    let mut keys: Vec<Vec<u8>> = vec![];
    let mut churn = false;
    let mut produced_events = 0usize;
    ctx.eval();
    let steps = rng.range(5, 25);
    for step in 0..steps {
        tick += 1;
        // expectations for this step
        let mut expect: Option<Vec<Ev>> = None; // exact expected event list (single-entry ingress)
        let mut multi: Option<(Vec<(SignedEntry, bool, u8)>, Model)> = None; // (entries with validity and status, dump before)
        let mut op = rng.below(12);
        let from = [0x50 + rng.below(3) as u8; 32];
        if rng.chance(1, 10) {
            op = 100;
        } else if rng.chance(1, 12) {
            op = 101;
        }
        match op {
            101 => {
                // another document of the same actor is opened with the channel of one of this
                // document's subscribers and closed again while still subscribed (added after seeded
                // change agent-C12-7): nothing happens to this document, its subscribers stay attached
                let act_idx: Vec<usize> = subs.iter().enumerate().filter(|(_, s)| s.active).map(|(i, _)| i).collect();
                if !act_idx.is_empty() {
                    let i = *rng.pick(&act_idx);
                    let o = h.open(other_doc.id(), OpenOpts::default().subscribe(subs[i].tx.clone())).await;
                    let mut closed = false;
                    for _ in 0..4 {
                        match h.close(other_doc.id()).await {
                            Ok(true) => {
                                closed = true;
                                break;
                            }
                            Ok(false) => {}
                            Err(_) => break,
                        }
                    }
                    trace.push(format!("another document borrows the channel of s{} (open -> {}) and is closed (-> {closed})", subs[i].id, o.is_ok()));
                    ctx.count("other_document_closed_while_sharing_a_channel", closed as u64);
                }
                expect = Some(vec![]);
            }
            100 => {
                // a capability import for the open document: nothing enters the replica, no event, and
                // every subscriber stays attached (checked by the steps that follow)
                let write = read_only || rng.chance(1, 2);
                let cap = if write { iroh_docs::Capability::Write(uni.ns.clone()) } else { iroh_docs::Capability::Read(ns) };
                let r = h.import_namespace(cap).await;
                trace.push(format!("import {} capability{} -> {}", if write { "write" } else { "read" }, if write && read_only { " (upgrade of the open document)" } else { "" }, r.is_ok()));
                if write && read_only && r.is_ok() {
                    ctx.count("capability_upgrades_while_open_with_subscribers", subs.iter().any(|s| s.active) as u64);
                    read_only = false;
                }
                expect = Some(vec![]);
            }
            0 => {
                if subs.iter().filter(|s| s.active).count() < 4 {
                    let tx = new_sub(&mut subs);
                    let r = h.subscribe(ns, tx).await;
                    trace.push(format!("subscribe s{} -> {}", subs.last().unwrap().id, r.is_ok()));
                    churn = true;
                }
                expect = Some(vec![]);
            }
            1 => {
                let act_idx: Vec<usize> = subs.iter().enumerate().filter(|(_, s)| s.active).map(|(i, _)| i).collect();
                if !act_idx.is_empty() {
                    let i = *rng.pick(&act_idx);
                    if rng.chance(1, 2) {
                        let r = h.unsubscribe(ns, subs[i].tx.clone()).await;
                        trace.push(format!("unsubscribe s{} -> {}", subs[i].id, r.is_ok()));
                    } else {
                        subs[i].rx = None; // drop the receiver
                        trace.push(format!("drop receiver of s{}", subs[i].id));
                    }
                    subs[i].active = false;
                    churn = true;
                }
                expect = Some(vec![]);
            }
            2 => {
                let p = gen_policy(rng);
                if h.set_download_policy(ns, real(&p)).await.is_ok() {
                    POLICY_UNREADABLE.store(false, std::sync::atomic::Ordering::SeqCst);
                }
                trace.push(format!("policy {p:?}"));
                policy = Some(p);
                expect = Some(vec![]);
            }
            3 | 4 => {
                // local insert / delete
                let a = rng.below(uni.authors.len());
                let k = key(rng, &keys, 3);
                keys.push(k.clone());
                let ts = uni.t0 + if rng.chance(1, 4) { rng.below(4) as u64 } else { tick };
                iroh_docs::verif::set_clock(ts);
                let del = op == 4;
                let pre = uni.entry(a, &k, ts, if del { None } else { Some(rng.below(4)) });
                let before = exact(&h, ns, &pre).await;
                let r = if del {
                    h.delete_prefix(ns, uni.authors[a].id(), k.clone().into()).await.map(|_| ())
                } else {
                    h.insert_local(ns, uni.authors[a].id(), k.clone().into(), pre.content_hash(), pre.content_len()).await
                };
                let after = exact(&h, ns, &pre).await;
                trace.push(format!("local {} -> {}", E::of(&pre).short(), r.is_ok()));
                let applied = r.is_ok();
                if applied && after.as_ref() != Some(&pre) {
                    ctx.violation(case, "acknowledged-local-write-not-readable", json!({"trace": trace}));
                    break;
                }
                if !applied && after != before {
                    ctx.violation(case, "failed-local-write-changed-the-entry", json!({"trace": trace}));
                    break;
                }
                expect = Some(if applied { vec![Ev { local: true, entry: pre, from: None, download: None, status: None, ns }] } else { vec![] });
            }
            5 | 6 | 7 => {
                // single remote entry through either ingress path; valid, superseded or invalid
                let a = rng.below(uni.authors.len());
                let k = key(rng, &keys, 3);
                keys.push(k.clone());
                let ts = uni.t0 + if rng.chance(1, 3) { rng.below(4) as u64 } else { tick };
                let mut e = uni.entry(a, &k, ts, if rng.chance(1, 4) { None } else { Some(rng.below(4)) });
                let invalid = rng.chance(1, 5);
                if invalid {
                    let mut raw = RawEntry::of(&e);
                    raw.author_sig[3] ^= 0x10;
                    e = raw.into_entry().unwrap();
                }
                let st = rng.below(3);
                let before = exact(&h, ns, &e).await;
                let via_msg = op == 7;
                let ok;
                if via_msg {
                    let zero = vec![0u8; 64];
                    let m = RawMessage { parts: vec![RawPart::Item { x: zero.clone(), y: zero, values: vec![(RawEntry::of(&e), st as u8)], have_local: true }] };
                    let r = h.sync_process_message(ns, m.into_message().unwrap(), from, SyncOutcome::default()).await;
                    ok = r.is_ok();
                } else {
                    ok = h.insert_remote(ns, e.clone(), from, status(st)).await.is_ok();
                }
                let after = exact(&h, ns, &e).await;
                let applied = after.as_ref() == Some(&e) && before.as_ref() != Some(&e);
                trace.push(format!("remote{} {}{} -> ok={} applied={}", if via_msg { "(msg)" } else { "" }, E::of(&e).short(), if invalid { " INVALID" } else { "" }, ok, applied));
                if !via_msg && ok != applied {
                    // direct path: Ok <=> applied (a re-offer of the identical entry is refused as superseded)
                    ctx.violation(case, "remote-insert-result-disagrees-with-state", json!({"trace": trace}));
                    break;
                }
                if invalid && applied {
                    ctx.violation(case, "invalid-entry-applied", json!({"trace": trace}));
                    break;
                }
                let want_dl = policy.as_ref().map(|p| spec_matches(p, &k)).unwrap_or(true);
                expect = Some(if applied {
                    vec![Ev { local: false, entry: e, from: Some(from), download: Some(want_dl), status: Some(st as u8), ns }]
                } else {
                    vec![]
                });
            }
            8 | 9 => {
                // multi-entry reconciliation message
                let n = rng.range(2, 6);
                let mut vals = vec![];
                for _ in 0..n {
                    let a = rng.below(uni.authors.len());
                    let k = key(rng, &keys, 3);
                    keys.push(k.clone());
                    let ts = uni.t0 + if rng.chance(1, 3) { rng.below(4) as u64 } else { tick };
                    let mut e = uni.entry(a, &k, ts, if rng.chance(1, 4) { None } else { Some(rng.below(4)) });
                    let invalid = rng.chance(1, 6);
                    if invalid {
                        let mut raw = RawEntry::of(&e);
                        raw.namespace_sig[7] ^= 0x01;
                        e = raw.into_entry().unwrap();
                    }
                    vals.push((e, !invalid, rng.below(3) as u8));
                }
                let before = Model::from_entries(act::dump(&h, ns).await.unwrap_or_default());
                let zero = vec![0u8; 64];
                let m = RawMessage { parts: vec![RawPart::Item { x: zero.clone(), y: zero, values: vals.iter().map(|(e, _, s)| (RawEntry::of(e), *s)).collect(), have_local: true }] };
                let r = h.sync_process_message(ns, m.into_message().unwrap(), from, SyncOutcome::default()).await;
                trace.push(format!("message [{}] -> {}", vals.iter().map(|(e, v, _)| format!("{}{}", E::of(e).short(), if *v { "" } else { " INVALID" })).collect::<Vec<_>>().join(", "), r.is_ok()));
                multi = Some((vals, before));
            }
            _ => {
                // the race of the regression test, generalised: a session with a peer in which a
                // local write lands between two messages and makes incoming entries obsolete
                let mut peer = Store::memory();
                import_write(&mut peer, &uni.ns);
                let n = rng.range(1, 5);
                let mut peer_entries = vec![];
                for _ in 0..n {
                    let a = rng.below(uni.authors.len());
                    let k = key(rng, &keys, 2);
                    keys.push(k.clone());
                    let e = uni.entry(a, &k, uni.t0 + tick, Some(rng.below(4)));
                    peer_entries.push(e);
                }
                std::thread::scope(|sc| {
                    let (peer, peer_entries) = (&mut peer, &peer_entries);
                    sc.spawn(move || {
                        for e in peer_entries {
                            offer_remote(peer, ns, e);
                        }
                    })
                    .join()
                    .unwrap()
                });
                let interleave_at = rng.below(4);
                let mut outcome_peer = SyncOutcome::default();
                let mut outcome_us = SyncOutcome::default();
                let mut msg = {
                    let mut r = peer.open_replica(&ns).unwrap();
                    r.sync_initial_message().unwrap()
                };
                let mut i = 0;
                let mut all_events_ok = true;
                loop {
                    if i == interleave_at {
                        // local write that supersedes one of the peer's entries
                        let victim = rng.pick(&peer_entries).clone();
                        let a = uni.authors.iter().position(|x| x.id() == victim.author()).unwrap();
                        tick += 1;
                        let ts = uni.t0 + tick;
                        iroh_docs::verif::set_clock(ts);
                        let k = victim.key().to_vec();
                        let k = if rng.chance(1, 2) && !k.is_empty() { k[..k.len() - 1].to_vec() } else { k };
                        let del = rng.chance(1, 2);
                        let pre = uni.entry(a, &k, ts, if del { None } else { Some(rng.below(4)) });
                        let r = if del {
                            h.delete_prefix(ns, uni.authors[a].id(), k.clone().into()).await.map(|_| ())
                        } else {
                            h.insert_local(ns, uni.authors[a].id(), k.clone().into(), pre.content_hash(), pre.content_len()).await
                        };
                        trace.push(format!("  (interleaved local {} -> {})", E::of(&pre).short(), r.is_ok()));
                        let want = if r.is_ok() { vec![Ev { local: true, entry: pre, from: None, download: None, status: None, ns }] } else { vec![] };
                        if !check_exact(ctx, case, &mut subs, &want, &trace, &mut produced_events) {
                            all_events_ok = false;
                            break;
                        }
                    }
                    i += 1;
                    // the policy may change between two messages of one exchange: entries of later
                    // messages are announced with the policy in force when they are applied
                    if rng.chance(1, 4) {
                        let p = gen_policy(rng);
                        if h.set_download_policy(ns, real(&p)).await.is_ok() {
                            POLICY_UNREADABLE.store(false, std::sync::atomic::Ordering::SeqCst);
                        }
                        trace.push(format!("  (policy changed between two messages: {p:?})"));
                        policy = Some(p);
                        ctx.count("policy_changes_inside_a_session", 1);
                    }
                    // to us
                    let before = Model::from_entries(act::dump(&h, ns).await.unwrap_or_default());
                    let vals: Vec<(SignedEntry, bool, u8)> = RawMessage::of(&msg)
                        .parts
                        .iter()
                        .flat_map(|p| match p {
                            RawPart::Item { values, .. } => values.clone(),
                            _ => vec![],
                        })
                        .map(|(raw, st)| (raw.into_entry().unwrap(), true, st))
                        .collect();
                    let r = h.sync_process_message(ns, msg, from, outcome_us.clone()).await;
                    let Ok((reply, o)) = r else { break };
                    outcome_us = o;
                    trace.push(format!("  session message with {} entries", vals.len()));
                    if !check_multi(ctx, case, &mut subs, &vals, &before, from, policy.as_ref(), ns, &trace, &h, &mut produced_events).await {
                        all_events_ok = false;
                        break;
                    }
                    let Some(reply) = reply else { break };
                    let back = std::thread::scope(|sc| {
                        let (peer, outcome_peer) = (&mut peer, &mut outcome_peer);
                        sc.spawn(move || {
                            let mut r = peer.open_replica(&ns).unwrap();
                            crate::util::block_on(r.sync_process_message(reply, [1u8; 32], outcome_peer))
                        })
                        .join()
                        .unwrap()
                    });
                    peer.close_replica(ns);
                    match back {
                        Ok(Some(m)) => msg = m,
                        _ => break,
                    }
                    if i > 40 {
                        break;
                    }
                }
                ctx.count("sessions_with_interleaved_local_write", 1);
                if !all_events_ok {
                    break;
                }
                expect = Some(vec![]);
            }
        }
        if let Some(want) = expect {
            if !check_exact(ctx, case, &mut subs, &want, &trace, &mut produced_events) {
                break;
            }
        }
        if let Some((vals, before)) = multi {
            if !check_multi(ctx, case, &mut subs, &vals, &before, from, policy.as_ref(), ns, &trace, &h, &mut produced_events).await {
                break;
            }
        }
        let _ = step;
    }
    let _ = h.shutdown().await;
    if churn && produced_events > 0 {
        ctx.nontrivial(h64(format!("{trace:?}").as_bytes()));
    }
    if ctx.want_sample() {
        ctx.sample(json!({"case": case, "trace": trace}));
    }
}

/// A slow consumer and impatient callers. One subscriber has a bounded channel (capacity 1–2) that
/// a task drains with a delay, so the actor regularly waits inside event delivery; the callers give
/// up on some requests after a random time (request future dropped: timeout, `select!`, aborted
/// task). Whatever happens to the requests, afterwards every subscriber must have exactly one event
/// per entry that is in the replica, in the order the requests were sent, and a subscriber that went
/// away must not cost the others anything. Time only decides how often the actor is caught waiting,
/// never the verdict: the oracle is the final content of the replica.
async fn slow_subscriber(ctx: &mut Ctx, case: u64, rng: &mut Rng) {
    use std::{sync::{Arc, Mutex}, time::Duration};
    let uni = Universe::new(rng, 1);
    let ns = uni.ns.id();
    let mut store = Store::memory();
    import_write(&mut store, &uni.ns);
    for a in &uni.authors {
        store.import_author(a.clone()).unwrap();
    }
    let h = act::spawn(store);
    if h.open(ns, OpenOpts::default().sync()).await.is_err() {
        ctx.harness_error("open failed");
        return;
    }
    ctx.eval();
    let cap = rng.range(1, 2);
    let delay = Duration::from_millis(rng.range(2, 6) as u64);
    let (slow_tx, slow_rx) = async_channel::bounded::<Event>(cap);
    let n_healthy = rng.range(1, 2);
    let healthy: Vec<_> = (0..n_healthy).map(|_| async_channel::unbounded::<Event>()).collect();
    let slow_first = rng.chance(1, 2);
    let mut trace = vec![format!("slow subscriber: capacity {cap}, drained every {delay:?}, subscribed {}; {n_healthy} unbounded subscribers", if slow_first { "first" } else { "last" })];
    if slow_first && h.subscribe(ns, slow_tx.clone()).await.is_err() {
        ctx.harness_error("subscribe failed");
        return;
    }
    for (tx, _) in &healthy {
        let _ = h.subscribe(ns, tx.clone()).await;
    }
    if !slow_first && h.subscribe(ns, slow_tx.clone()).await.is_err() {
        ctx.harness_error("subscribe failed");
        return;
    }
    let seen_slow: Arc<Mutex<Vec<Ev>>> = Default::default();
    // Now and then the slow consumer does not take anything out for seconds before it starts (added
    // after seeded change agent-C12-10: a subscriber that is slow — however slow — is still a current
    // subscriber; giving up on it after some time loses its events). The actor then waits that long
    // inside the delivery of one event.
    let stall = if rng.chance(1, if ctx.is_quick() { 100 } else { 25 }) { Duration::from_millis(5500) } else { Duration::ZERO };
    if !stall.is_zero() {
        ctx.count("slow_subscriber_cases_with_a_stall_of_seconds", 1);
        trace.push(format!("the slow subscriber takes nothing out for the first {stall:?}"));
    }
    let drainer = {
        let seen = seen_slow.clone();
        tokio::spawn(async move {
            tokio::time::sleep(stall).await;
            loop {
                tokio::time::sleep(delay).await;
                match slow_rx.recv().await {
                    Ok(e) => seen.lock().unwrap().push(ev(e)),
                    Err(_) => break,
                }
            }
        })
    };
    let n = rng.range(4, 10);
    let from = [0x51u8; 32];
    let mut keys: Vec<Vec<u8>> = vec![]; // unique, not prefix related
    let mut healthy_rx: Vec<Option<async_channel::Receiver<Event>>> = healthy.iter().map(|(_, rx)| Some(rx.clone())).collect();
    let healthy_tx: Vec<_> = healthy.into_iter().map(|(tx, _)| tx).collect();
    let drop_at = if n_healthy > 1 && rng.chance(1, 2) { Some(rng.below(n)) } else { None };
    let mut dropped_at_event: Option<usize> = None;
    let mut cancelled_while_blocked = 0;
    for i in 0..n {
        if drop_at == Some(i) {
            healthy_rx[1] = None; // this subscriber goes away (its receiver is dropped); the sender kept by the actor now fails
            trace.push("receiver of the second unbounded subscriber dropped".into());
            dropped_at_event = Some(i);
        }
        let k = vec![b'k', i as u8, 0x61];
        keys.push(k.clone());
        let a = rng.below(uni.authors.len());
        let ts = uni.t0 + i as u64;
        iroh_docs::verif::set_clock(ts);
        let e = uni.entry(a, &k, ts, Some(rng.below(4)));
        let remote = rng.chance(1, 3);
        let patience = if rng.chance(1, 3) { None } else { Some(Duration::from_micros(rng.below(2 * delay.as_micros() as usize + 1) as u64)) };
        let fut = async {
            if remote {
                h.insert_remote(ns, e.clone(), from, ContentStatus::Complete).await.map(|_| ())
            } else {
                h.insert_local(ns, uni.authors[a].id(), k.clone().into(), e.content_hash(), e.content_len()).await
            }
        };
        let r = match patience {
            None => Some(fut.await.is_ok()),
            Some(d) => tokio::time::timeout(d, fut).await.ok().map(|r| r.is_ok()),
        };
        if r.is_none() {
            ctx.count("requests_given_up", 1);
            if slow_tx.is_full() {
                cancelled_while_blocked += 1;
                ctx.count("requests_given_up_while_the_slow_channel_was_full", 1);
            }
        }
        trace.push(format!("{} {} -> {}", if remote { "remote" } else { "local" }, E::of(&e).short(), match r { Some(true) => "ok", Some(false) => "refused", None => "caller gave up" }));
    }
    // barrier: a read that the actor serves after everything sent before it
    let dumped = match tokio::time::timeout(Duration::from_secs(20), act::dump(&h, ns)).await {
        Ok(Ok(d)) => d,
        _ => {
            ctx.harness_error("final read did not come back");
            return;
        }
    };
    // the actor is idle now; let the slow consumer finish what is queued
    let t = std::time::Instant::now();
    while !slow_tx.is_empty() && t.elapsed() < Duration::from_secs(10) {
        tokio::time::sleep(delay).await;
    }
    tokio::time::sleep(delay).await;
    drainer.abort();
    let mut in_replica: Vec<(usize, SignedEntry)> = dumped.into_iter().filter_map(|e| keys.iter().position(|k| k[..] == *e.key()).map(|i| (i, e))).collect();
    in_replica.sort_by_key(|(i, _)| *i);
    let want: Vec<&SignedEntry> = in_replica.iter().map(|(_, e)| e).collect();
    ctx.count("slow_subscriber_cases", 1);
    ctx.count("subscriber_drains", 1 + n_healthy as u64);
    let mut views: Vec<(String, Vec<Ev>, bool)> = vec![("slow".into(), seen_slow.lock().unwrap().clone(), true)];
    for (i, rx) in healthy_rx.iter().enumerate() {
        if let Some(rx) = rx {
            views.push((format!("unbounded{i}"), act::drain(rx).into_iter().map(ev).collect(), true));
        }
    }
    let _ = dropped_at_event;
    for (name, got, _) in &views {
        let got_e: Vec<&SignedEntry> = got.iter().map(|e| &e.entry).collect();
        if got_e != want {
            let sig = if got_e.len() < want.len() {
                "applied-entry-without-event"
            } else if got_e.len() > want.len() {
                "duplicate-or-extra-event"
            } else {
                "event-carries-wrong-entry"
            };
            ctx.violation(case, sig, json!({"scenario": "slow subscriber, impatient callers", "subscriber": name,
                "got": got.iter().map(|e| E::of(&e.entry).short()).collect::<Vec<_>>(),
                "in_replica": want.iter().map(|e| E::of(e).short()).collect::<Vec<_>>(), "trace": trace}));
            break;
        }
    }
    drop(healthy_tx);
    let _ = h.shutdown().await;
    if cancelled_while_blocked > 0 && !want.is_empty() {
        ctx.nontrivial(h64(format!("{trace:?}").as_bytes()));
    }
    if ctx.want_sample() {
        ctx.sample(json!({"case": case, "trace": trace}));
    }
}

/// Drain all subscribers; every active one must have received exactly `want`, inactive ones nothing.
fn check_exact(ctx: &mut Ctx, case: u64, subs: &mut [Sub], want: &[Ev], trace: &[String], produced: &mut usize) -> bool {
    for s in subs.iter() {
        let Some(rx) = &s.rx else { continue };
        let got: Vec<Ev> = act::drain(rx).into_iter().map(ev).collect();
        ctx.count("subscriber_drains", 1);
        *produced += got.len();
        let want_norm: Vec<Ev>;
        let want: &[Ev] = if policy_unreadable() {
            want_norm = want.iter().cloned().map(|mut e| { e.download = None; e }).collect();
            &want_norm
        } else {
            want
        };
        if s.active {
            if got != want {
                let sig = if got.len() > want.len() {
                    if want.is_empty() { "event-without-applied-entry" } else { "duplicate-or-extra-event" }
                } else if got.len() < want.len() {
                    "applied-entry-without-event"
                } else if got[0].local != want[0].local {
                    "event-kind-wrong"
                } else if got[0].entry != want[0].entry {
                    "event-carries-wrong-entry"
                } else if got[0].from != want[0].from {
                    "event-names-wrong-peer"
                } else if got[0].download != want[0].download {
                    "download-flag-differs-from-policy"
                } else if got[0].status != want[0].status {
                    "event-content-status-wrong"
                } else {
                    "event-differs"
                };
                ctx.violation(case, sig, json!({"subscriber": s.id, "got": got.iter().map(|e| E::of(&e.entry).short()).collect::<Vec<_>>(),
                    "expected": want.iter().map(|e| E::of(&e.entry).short()).collect::<Vec<_>>(), "trace": trace}));
                return false;
            }
        } else if !got.is_empty() {
            ctx.violation(case, "unsubscribed-subscriber-still-receives", json!({"subscriber": s.id, "trace": trace}));
            return false;
        }
    }
    true
}

#[allow(clippy::too_many_arguments)]
async fn check_multi(
    ctx: &mut Ctx,
    case: u64,
    subs: &mut [Sub],
    vals: &[(SignedEntry, bool, u8)],
    before: &Model,
    from: [u8; 32],
    policy: Option<&P>,
    ns: NamespaceId,
    trace: &[String],
    h: &SyncHandle,
    produced: &mut usize,
) -> bool {
    let after = Model::from_entries(act::dump(h, ns).await.unwrap_or_default());
    // prediction from the specification over the dump actually held before
    let mut model = before.clone();
    let mut predicted: Vec<&SignedEntry> = vec![];
    for (e, valid, _) in vals {
        if *valid && model.offer(e).is_some() {
            predicted.push(e);
        }
    }
    let mut reference: Option<Vec<Ev>> = None;
    for s in subs.iter() {
        let Some(rx) = &s.rx else { continue };
        let got: Vec<Ev> = act::drain(rx).into_iter().map(ev).collect();
        ctx.count("subscriber_drains", 1);
        *produced += got.len();
        if !s.active {
            if !got.is_empty() {
                ctx.violation(case, "unsubscribed-subscriber-still-receives", json!({"subscriber": s.id, "trace": trace}));
                return false;
            }
            continue;
        }
        let names = |v: &[Ev]| v.iter().map(|e| E::of(&e.entry).short()).collect::<Vec<_>>();
        // per event
        let mut last_pos: Option<usize> = None;
        for (i, g) in got.iter().enumerate() {
            let pos = vals.iter().position(|(e, _, _)| *e == g.entry);
            let Some(pos) = pos else {
                ctx.violation(case, "event-for-entry-not-in-message", json!({"events": names(&got), "trace": trace}));
                return false;
            };
            if got[..i].iter().any(|x| x.entry == g.entry) {
                ctx.violation(case, "duplicate-event", json!({"events": names(&got), "trace": trace}));
                return false;
            }
            if !vals[pos].1 {
                ctx.violation(case, "event-for-invalid-entry", json!({"events": names(&got), "trace": trace}));
                return false;
            }
            if let Some(lp) = last_pos {
                if pos < lp {
                    ctx.violation(case, "events-out-of-application-order", json!({"events": names(&got), "trace": trace}));
                    return false;
                }
            }
            last_pos = Some(pos);
            let want_dl = policy.map(|p| spec_matches(p, g.entry.key())).unwrap_or(true);
            if g.local || g.from != Some(from) || g.ns != ns {
                ctx.violation(case, "event-kind-or-peer-wrong", json!({"events": names(&got), "trace": trace}));
                return false;
            }
            if !policy_unreadable() && g.download != Some(want_dl) {
                ctx.violation(case, "download-flag-differs-from-policy", json!({"key": hex::encode(g.entry.key()), "trace": trace}));
                return false;
            }
            if g.status != Some(vals[pos].2) {
                ctx.violation(case, "event-content-status-wrong", json!({"events": names(&got), "trace": trace}));
                return false;
            }
        }
        // entries newly present must have been announced
        for (e, _, _) in vals {
            let v = E::of(e);
            let k = (v.author, v.key.clone());
            let newly = after.map.get(&k) == Some(e) && before.map.get(&k) != Some(e);
            if newly && !got.iter().any(|g| g.entry == *e) {
                ctx.violation(case, "applied-entry-without-event", json!({"entry": v.short(), "events": names(&got), "trace": trace}));
                return false;
            }
        }
        // against the specification's prediction
        let got_entries: Vec<&SignedEntry> = got.iter().map(|g| &g.entry).collect();
        if got_entries != predicted {
            let sig = if got_entries.len() > predicted.len() { "event-for-superseded-entry" } else { "applied-entry-without-event" };
            ctx.violation(case, sig, json!({"events": names(&got), "predicted": predicted.iter().map(|e| E::of(e).short()).collect::<Vec<_>>(),
                "state_before": before.short(), "trace": trace}));
            return false;
        }
        match &reference {
            None => reference = Some(got),
            Some(r) => {
                if *r != got {
                    ctx.violation(case, "subscribers-saw-different-events", json!({"trace": trace}));
                    return false;
                }
            }
        }
    }
    true
}
