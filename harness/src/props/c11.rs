//! C11 — at most one sync session per peer and document, and the slot is always freed.
//!
//! Two (thorough: also three) real live actors, each with a loopback endpoint, gossip, a memory
//! blob store and a real store actor. A 40-line network model in this file owns only the objects
//! in flight (requests, decline replies, the two independent ends of each allowed session); every
//! protocol decision is made by the real coordination state through the real handlers (hook H5).

use std::sync::Arc;

use iroh::{endpoint::presets, Endpoint, PublicKey, RelayMode, SecretKey};
use iroh_docs::{
    actor::{OpenOpts, SyncHandle},
    engine::verif::{LiveActor, SyncReason, ToLiveActor, VerifPeerState},
    net::{verif::BobState, AbortReason, AcceptError, AcceptOutcome, ConnectError, SyncFinished},
    store::Store,
    Capability, NamespaceId, NamespaceSecret, SyncOutcome,
};
use iroh_gossip::net::Gossip;
use serde_json::json;
use tokio::sync::{mpsc, oneshot};

use crate::{
    act,
    ctx::Ctx,
    rng::{h64, Rng},
};

pub(crate) struct NodeX {
    pub(crate) actor: LiveActor,
    pub(crate) id: PublicKey,
    pub(crate) sync: SyncHandle,
    _tx: mpsc::Sender<ToLiveActor>,
    pub(crate) _ep: Endpoint,
}

pub(crate) async fn make_node(seed: u8) -> anyhow::Result<NodeX> {
    let sk = SecretKey::from_bytes(&[seed; 32]);
    let ep = Endpoint::builder(presets::Minimal).secret_key(sk).relay_mode(RelayMode::Disabled).bind().await?;
    let gossip = Gossip::builder().spawn(ep.clone());
    let blobs = iroh_blobs::store::mem::MemStore::new();
    let blobs: iroh_blobs::api::Store = (*blobs).clone();
    let downloader = blobs.downloader(&ep);
    let sync = SyncHandle::spawn(Store::memory(), None, format!("n{seed}"));
    let (tx, rx) = mpsc::channel(64);
    let mut actor = LiveActor::new(sync.clone(), ep.clone(), gossip, blobs, downloader, rx, tx.clone(), sync.metrics().clone())?;
    actor.verif_enable_dial_sink();
    Ok(NodeX { actor, id: ep.id(), sync, _tx: tx, _ep: ep })
}

#[derive(Clone, Debug, PartialEq)]
struct Req {
    id: usize,
    from: usize,
    to: usize,
    reason: SyncReason,
    born: usize, // event index at creation
}
#[derive(Clone, Debug)]
struct Reply {
    req: Req,
    reason: AbortReason,
}
#[derive(Clone, Debug)]
struct AbortEnd {
    at: usize,
    peer: usize,
    reason: AbortReason,
}
#[derive(Clone, Debug)]
struct Sess {
    id: usize,
    dialer: usize,
    acceptor: usize,
    reason: SyncReason,
    connect_pending: bool,
    accept_pending: bool,
    /// one of its nodes has left the document since: the node's way of being done with it
    abandoned: bool,
}
impl Sess {
    fn in_progress(&self) -> bool {
        self.connect_pending && self.accept_pending && !self.abandoned
    }
}

fn finished(ns: NamespaceId, peer: PublicKey) -> SyncFinished {
    SyncFinished { namespace: ns, peer, outcome: SyncOutcome::default(), timings: Default::default() }
}

fn err() -> anyhow::Error {
    anyhow::anyhow!("injected")
}

struct World {
    nodes: Vec<NodeX>,
    ns: NamespaceId,
    syncing: Vec<bool>, // is the document being synced at node i
    reqs: Vec<Req>,
    replies: Vec<Reply>,
    abort_ends: Vec<AbortEnd>,
    sessions: Vec<Sess>,
    next_id: usize,
    step: usize,
    trace: Vec<String>,
    kinds: Vec<&'static str>,
    // S2 bookkeeping: for node i and peer j, has i processed a completion of its current dial to j?
    // S3 bookkeeping per (node, peer)
    oblig: Vec<Vec<Option<Oblig>>>,
}

#[derive(Clone, Debug)]
struct Oblig {
    origin_changed: bool,
}

type Viol = (String, serde_json::Value);

impl World {
    fn snap(&self, i: usize, j: usize) -> Option<VerifPeerState> {
        self.nodes[i].actor.verif_snapshot(&self.ns, &self.nodes[j].id)
    }
    fn running(&self, i: usize, j: usize) -> Option<String> {
        self.snap(i, j).and_then(|s| s.running.map(|o| format!("{o:?}")))
    }
    fn in_flight(&self) -> usize {
        self.reqs.len() + self.replies.len() + self.abort_ends.len() + self.sessions.iter().filter(|s| s.connect_pending || s.accept_pending).count()
    }
    fn state_hash(&self) -> u64 {
        let n = self.nodes.len();
        let mut s = String::new();
        for i in 0..n {
            for j in 0..n {
                if i != j {
                    s.push_str(&format!("{:?}|", self.snap(i, j)));
                }
            }
        }
        s.push_str(&format!(
            "r{:?}p{:?}a{:?}s{:?}",
            self.reqs.iter().map(|r| (r.from, r.to)).collect::<Vec<_>>(),
            self.replies.iter().map(|r| (r.req.from, r.req.to)).collect::<Vec<_>>(),
            self.abort_ends.iter().map(|a| (a.at, a.peer)).collect::<Vec<_>>(),
            self.sessions.iter().map(|x| (x.dialer, x.acceptor, x.connect_pending, x.accept_pending)).collect::<Vec<_>>()
        ));
        h64(s.as_bytes())
    }

    /// Run a handler at node `x` (about peer `y`) and apply the S3 bookkeeping around it.
    /// Returns the dials the handler decided on.
    async fn around<F>(&mut self, x: usize, y: usize, what: &str, is_finish_handler: bool, f: F) -> Result<Vec<SyncReason>, Viol>
    where
        F: AsyncFnOnce(&mut LiveActor),
    {
        let before = self.running(x, y);
        f(&mut self.nodes[x].actor).await;
        let after = self.running(x, y);
        let dials = self.nodes[x].actor.verif_take_dials();
        let yid = self.nodes[y].id;
        let mut reasons = vec![];
        for (ns, peer, reason) in dials {
            if ns != self.ns || peer != yid {
                return Err(("dial-to-unexpected-peer-or-document".into(), json!({"trace": self.trace})));
            }
            reasons.push(reason);
            let id = self.next_id;
            self.next_id += 1;
            self.reqs.push(Req { id, from: x, to: y, reason, born: self.step });
        }
        if reasons.len() > 1 {
            return Err(("two-dials-decided-by-one-handler-call".into(), json!({"handler": what, "dials": format!("{reasons:?}"), "trace": self.trace})));
        }
        let resync = reasons.iter().filter(|r| **r == SyncReason::Resync).count();
        // origin changed without the slot going idle (an accepted request overriding our dial)
        if let (Some(b), Some(a)) = (&before, &after) {
            if b != a {
                if let Some(o) = &mut self.oblig[x][y] {
                    o.origin_changed = true;
                }
            }
        }
        let ended = before.is_some() && (after.is_none() || !reasons.is_empty() && is_finish_handler);
        if ended {
            match self.oblig[x][y].take() {
                Some(o) => {
                    if !o.origin_changed && resync != 1 {
                        return Err((
                            "refused-sync-report-not-followed-by-exactly-one-resync-dial".into(),
                            json!({"node": x, "handler": what, "resync_dials": resync, "trace": self.trace}),
                        ));
                    }
                }
                None => {
                    if resync != 0 {
                        return Err(("resync-dial-without-refused-sync-report".into(), json!({"node": x, "handler": what, "trace": self.trace})));
                    }
                }
            }
        } else if resync != 0 && !is_finish_handler {
            return Err(("resync-dial-outside-a-finish-handler".into(), json!({"node": x, "handler": what, "trace": self.trace})));
        }
        Ok(reasons)
    }

    async fn decide(&mut self, x: usize, y: usize, reason: SyncReason) -> Result<(), Viol> {
        let ns = self.ns;
        let yid = self.nodes[y].id;
        let busy_before = self.running(x, y);
        let dials = self.around(x, y, "decide", false, async |a: &mut LiveActor| a.verif_sync_with_peer(ns, yid, reason)).await?;
        self.trace.push(format!("{}: n{x} decides {reason:?} -> {}", self.step, if dials.is_empty() { "no dial" } else { "dial" }));
        self.kinds.push("decide");
        if !self.syncing[x] {
            if !dials.is_empty() {
                return Err(("dial-for-document-that-is-not-synced".into(), json!({"trace": self.trace})));
            }
            return Ok(());
        }
        if dials.is_empty() && busy_before.is_none() {
            return Err(("idle-slot-refused-to-dial".into(), json!({"node": x, "trace": self.trace})));
        }
        if !dials.is_empty() && busy_before.is_some() {
            return Err(("dial-decided-while-slot-busy".into(), json!({"node": x, "busy": busy_before, "trace": self.trace})));
        }
        if reason == SyncReason::SyncReport && dials.is_empty() && busy_before.is_some() && self.oblig[x][y].is_none() {
            self.oblig[x][y] = Some(Oblig { origin_changed: false });
        }
        Ok(())
    }

    async fn deliver(&mut self, idx: usize) -> Result<(), Viol> {
        let r = self.reqs.remove(idx);
        let (x, y) = (r.from, r.to);
        let ns = self.ns;
        let xid = self.nodes[x].id;
        let (tx, rx) = oneshot::channel();
        let _ = self
            .around(y, x, "accept-request", false, async |a: &mut LiveActor| {
                let _ = a.verif_on_actor_message(ToLiveActor::AcceptSyncRequest { namespace: ns, peer: xid, reply: tx }).await;
            })
            .await?;
        let outcome = rx.await.map_err(|_| ("accept-request-not-answered".to_string(), json!({"trace": self.trace})))?;
        self.trace.push(format!("{}: request n{x}->n{y} ({:?}) delivered -> {:?}", self.step, r.reason, outcome));
        self.kinds.push("deliver");
        if !self.syncing[y] {
            if !matches!(outcome, AcceptOutcome::Reject(AbortReason::NotFound)) {
                return Err(("request-for-unsynced-document-not-declined-as-not-found".into(), json!({"outcome": format!("{outcome:?}"), "trace": self.trace})));
            }
            self.replies.push(Reply { req: r, reason: AbortReason::NotFound });
            self.abort_ends.push(AbortEnd { at: y, peer: x, reason: AbortReason::NotFound });
            return Ok(());
        }
        match outcome {
            AcceptOutcome::Allow => {
                // S1
                if let Some(s) = self.sessions.iter().find(|s| s.in_progress() && ((s.dialer == x && s.acceptor == y) || (s.dialer == y && s.acceptor == x))) {
                    return Err(("two-sessions-in-progress-for-the-same-pair".into(), json!({"existing": format!("{s:?}"), "trace": self.trace})));
                }
                // S2 (crossing requests both allowed)
                if let Some(s) = self.sessions.iter().find(|s| s.dialer == y && s.acceptor == x && s.connect_pending) {
                    let _ = s; // the other direction was allowed earlier and its dial is still outstanding at y
                }
                let id = self.next_id;
                self.next_id += 1;
                self.sessions.push(Sess { id, dialer: x, acceptor: y, reason: r.reason, connect_pending: true, accept_pending: true, abandoned: false });
            }
            AcceptOutcome::Reject(reason) => {
                self.replies.push(Reply { req: r, reason });
                self.abort_ends.push(AbortEnd { at: y, peer: x, reason });
            }
        }
        Ok(())
    }

    /// Deliver a request through the REAL accepting session driver: `BobState::run` over an
    /// in-memory pipe, its accept callback answered by the real `AcceptSyncRequest` handler of the
    /// acceptor's live actor, and its real result (exactly as `handle_connection` builds it) fed to
    /// the real completion handler. This covers the glue between the wire driver's errors and the
    /// slot bookkeeping, which the synthetic session ends cannot.
    async fn deliver_integrated(&mut self, idx: usize, rng: &mut Rng) -> Result<(), Viol> {
        use tokio::io::AsyncWriteExt;
        let r = self.reqs.remove(idx);
        let (x, y) = (r.from, r.to);
        let ns = self.ns;
        let (xid, _yid) = (self.nodes[x].id, self.nodes[y].id);
        // sometimes the acceptor's replica is closed in the store actor behind the live actor's back
        // (e.g. a handle closed once too often): processing the first message then fails locally
        let local_failure = self.syncing[y] && rng.chance(1, 3);
        if local_failure {
            let _ = self.nodes[y].sync.close(ns).await;
        }
        let script = rng.below(5);
        let before = self.running(y, x);
        let (local, remote) = tokio::io::duplex(1 << 16);
        let (lr, lw) = tokio::io::split(local);
        let sync = self.nodes[y].sync.clone();
        let (req_tx, mut req_rx) = mpsc::channel::<(NamespaceId, PublicKey, oneshot::Sender<AcceptOutcome>)>(1);
        let bob = async move {
            let mut st = BobState::new(xid);
            let res = st
                .run(lw, lr, sync, move |n, p| {
                    let tx = req_tx.clone();
                    async move {
                        let (rtx, rrx) = oneshot::channel();
                        let _ = tx.send((n, p, rtx)).await;
                        rrx.await.unwrap_or(AcceptOutcome::Reject(AbortReason::InternalServerError))
                    }
                })
                .await;
            let outcome = st.into_outcome();
            res.map(|namespace| SyncFinished { namespace, peer: xid, outcome, timings: Default::default() })
        };
        let mut decision: Option<AcceptOutcome> = None;
        let actor = &mut self.nodes[y].actor;
        let decision_ref = &mut decision;
        let driver = async move {
            while let Some((n, p, rtx)) = req_rx.recv().await {
                let (tx, rx) = oneshot::channel();
                let _ = actor.verif_on_actor_message(ToLiveActor::AcceptSyncRequest { namespace: n, peer: p, reply: tx }).await;
                let o = rx.await.unwrap_or(AcceptOutcome::Reject(AbortReason::InternalServerError));
                *decision_ref = Some(o.clone());
                let _ = rtx.send(o);
            }
        };
        let zero = vec![0u8; 64];
        let fp = crate::wire::RawMessage { parts: vec![crate::wire::RawPart::Fingerprint { x: zero.clone(), y: zero, fp: [7; 32] }] }.to_bytes();
        let adversary = async move {
            let (mut rr, mut rw) = tokio::io::split(remote);
            let drain = tokio::spawn(async move {
                use tokio::io::AsyncReadExt;
                let mut buf = [0u8; 4096];
                while let Ok(n) = rr.read(&mut buf).await {
                    if n == 0 {
                        break;
                    }
                }
            });
            let init = crate::props::c09::frame(&crate::props::c09::msg_init(ns.as_bytes(), &fp));
            match script {
                0 => {
                    let _ = rw.write_all(&[0, 0, 0, 3, 9, 9, 9]).await; // garbage before any Init
                }
                1 => {
                    let _ = rw.write_all(&init).await;
                }
                2 => {
                    let _ = rw.write_all(&init).await;
                    let _ = rw.write_all(&[0, 0, 0, 2, 7, 7]).await; // garbage after Init
                }
                3 => {
                    let _ = rw.write_all(&init).await;
                    let _ = rw.write_all(&crate::props::c09::frame(&crate::props::c09::msg_sync(&fp))).await;
                }
                _ => {
                    let _ = rw.write_all(&init[..init.len() / 2]).await; // cut inside the Init frame
                }
            }
            let _ = rw.shutdown().await;
            drop(rw);
            let _ = tokio::time::timeout(std::time::Duration::from_secs(5), drain).await;
        };
        let (res, _, _) = tokio::join!(bob, driver, adversary);
        let _ = self.nodes[y].actor.verif_take_dials();
        let after = self.running(y, x);
        if let (Some(b), Some(a)) = (&before, &after) {
            if b != a {
                if let Some(o) = &mut self.oblig[y][x] {
                    o.origin_changed = true;
                }
            }
        }
        self.trace.push(format!(
            "{}: request n{x}->n{y} ({:?}) through the real acceptor (script {script}, local failure {local_failure}) -> decision {:?}, result {}",
            self.step,
            r.reason,
            decision,
            match &res {
                Ok(_) => "Ok".to_string(),
                Err(e) => format!("{e:?}").chars().take(60).collect(),
            }
        ));
        self.kinds.push("deliver-integrated");
        match &decision {
            Some(AcceptOutcome::Allow) => {
                if let Some(s) = self.sessions.iter().find(|s| s.in_progress() && ((s.dialer == x && s.acceptor == y) || (s.dialer == y && s.acceptor == x))) {
                    return Err(("two-sessions-in-progress-for-the-same-pair".into(), json!({"existing": format!("{s:?}"), "trace": self.trace})));
                }
                let id = self.next_id;
                self.next_id += 1;
                // the accepting end finishes right now (below); the dialer's end stays in flight
                self.sessions.push(Sess { id, dialer: x, acceptor: y, reason: r.reason, connect_pending: true, accept_pending: false, abandoned: false });
            }
            Some(AcceptOutcome::Reject(reason)) => {
                if !self.syncing[y] && *reason != AbortReason::NotFound {
                    return Err(("request-for-unsynced-document-not-declined-as-not-found".into(), json!({"trace": self.trace})));
                }
                self.replies.push(Reply { req: r.clone(), reason: *reason });
            }
            None => {
                // the acceptor never got to a decision: the dialer just sees its session fail
                self.replies.push(Reply { req: r.clone(), reason: AbortReason::InternalServerError });
            }
        }
        // the real result goes to the real completion handler, as the live actor's loop does
        self.accept_finished(y, x, res, "real acceptor").await?;
        if local_failure {
            let _ = self.nodes[y].sync.open(ns, OpenOpts::default().sync()).await;
        }
        Ok(())
    }

    async fn connect_finished(&mut self, x: usize, y: usize, reason: SyncReason, res: Result<SyncFinished, ConnectError>, what: &str) -> Result<(), Viol> {
        let ns = self.ns;
        let yid = self.nodes[y].id;
        let desc = match &res {
            Ok(_) => "Ok".to_string(),
            Err(e) => format!("{e:?}").chars().take(40).collect(),
        };
        self.around(x, y, what, true, async |a: &mut LiveActor| a.verif_on_connect_finished(ns, yid, reason, res).await).await?;
        self.trace.push(format!("{}: n{x} connect-finished ({what}) {desc}", self.step));
        Ok(())
    }

    async fn accept_finished(&mut self, y: usize, x: usize, res: Result<SyncFinished, AcceptError>, what: &str) -> Result<(), Viol> {
        let desc = match &res {
            Ok(_) => "Ok".to_string(),
            Err(e) => format!("{e:?}").chars().take(40).collect(),
        };
        self.around(y, x, what, true, async |a: &mut LiveActor| a.verif_on_accept_finished(res).await).await?;
        self.trace.push(format!("{}: n{y} accept-finished ({what}) {desc}", self.step));
        Ok(())
    }
}

fn connect_err(rng: &mut Rng) -> ConnectError {
    match rng.below(3) {
        0 => ConnectError::Connect { error: err() },
        1 => ConnectError::Sync { error: err() },
        _ => ConnectError::Close { error: err() },
    }
}

pub fn run(ctx: &mut Ctx) {
    if ctx.mode.as_deref() == Some("net") {
        return super::c11net::run(ctx);
    }
    if ctx.mode.as_deref() == Some("live") {
        return super::c11live::run(ctx);
    }
    let rt = act::runtime(2);
    let three = ctx.mode.as_deref() == Some("three");
    rt.block_on(async {
        let mut nodes: Option<Vec<NodeX>> = None;
        let mut made = 0u64;
        for case in ctx.cases(10_000, 2_000_000) {
            if nodes.is_none() || made % 4000 == 3999 {
                if let Some(old) = nodes.take() {
                    for mut n in old {
                        let _ = n.actor.verif_shutdown().await;
                        // release the sockets before new endpoints are bound
                        n._ep.close().await;
                    }
                }
                let mut v = vec![];
                // both id orders occur: node seeds chosen per shard
                let seeds: Vec<u8> = if ctx.shard % 2 == 0 { vec![1, 2, 3] } else { vec![3, 2, 1] };
                for s in seeds.iter().take(if three { 3 } else { 2 }) {
                    match make_node(*s + (ctx.shard as u8) * 3).await {
                        Ok(n) => v.push(n),
                        Err(e) => {
                            ctx.harness_error(format!("cannot create live actor: {e:?}"));
                            return;
                        }
                    }
                }
                nodes = Some(v);
            }
            made += 1;
            let mut rng = ctx.rng(case);
            let ns_secret = NamespaceSecret::from_bytes(&rng.fill32());
            let mut w = World {
                nodes: nodes.take().unwrap(),
                ns: ns_secret.id(),
                syncing: vec![],
                reqs: vec![],
                replies: vec![],
                abort_ends: vec![],
                sessions: vec![],
                next_id: 0,
                step: 0,
                trace: vec![],
                kinds: vec![],
                oblig: vec![],
            };
            let n = w.nodes.len();
            w.oblig = vec![vec![None; n]; n];
            // one history in eight is about leaving a document and joining it again while a session
            // is in flight (added after seeded change agent-C11-7)
            let res = if case % 8 == 5 { leave_history(ctx, case, &mut rng, &mut w, &ns_secret).await } else { history(ctx, case, &mut rng, &mut w, &ns_secret).await };
            ctx.eval();
            ctx.distinct("event_kind_sequences", h64(w.kinds.join(",").as_bytes()));
            if let Err((sig, detail)) = res {
                ctx.violation(case, &sig, detail);
            } else if w.kinds.len() >= 4 {
                ctx.nontrivial(h64(w.trace.join("\n").as_bytes()));
            }
            if ctx.want_sample() && w.kinds.len() >= 6 {
                ctx.sample(json!({"case": case, "higher_id": if w.nodes[0].id.as_bytes() > w.nodes[1].id.as_bytes() {"n0"} else {"n1"}, "history": w.trace}));
            }
            // leave the document on every node
            let ns = w.ns;
            for nd in w.nodes.iter_mut() {
                let (tx, rx) = oneshot::channel();
                let _ = nd.actor.verif_on_actor_message(ToLiveActor::Leave { namespace: ns, kill_subscribers: true, reply: tx }).await;
                let _ = rx.await;
                let _ = nd.actor.verif_take_dials();
            }
            nodes = Some(w.nodes);
        }
        if let Some(old) = nodes.take() {
            for mut n in old {
                let _ = n.actor.verif_shutdown().await;
                n._ep.close().await;
            }
        }
    });
}

async fn history(ctx: &mut Ctx, _case: u64, rng: &mut Rng, w: &mut World, ns_secret: &NamespaceSecret) -> Result<(), Viol> {
    let n = w.nodes.len();
    let ns = w.ns;
    // the document is synced on every node, except that sometimes one node does not sync it (S5)
    let unsynced = if rng.chance(1, 12) { Some(rng.below(n)) } else { None };
    for i in 0..n {
        let on = Some(i) != unsynced;
        w.syncing.push(on);
        if !on && rng.chance(1, 2) {
            // the document is not even known to this node: starting to sync it must fail, and the
            // failed attempt must not make the node treat it as being synced
            let (tx, rx) = oneshot::channel();
            let _ = w.nodes[i].actor.verif_on_actor_message(ToLiveActor::StartSync { namespace: ns, peers: vec![], reply: tx }).await;
            let _ = w.nodes[i].actor.verif_take_dials();
            ctx.count("failed_start_sync_attempts", 1);
            if let Ok(Ok(())) = rx.await {
                return Err(("start-sync-of-unknown-document-succeeded".into(), json!({"node": i})));
            }
            w.trace.push(format!("0: n{i} start_sync of a document it does not have -> refused"));
            continue;
        }
        let _ = w.nodes[i].sync.import_namespace(Capability::Write(ns_secret.clone())).await;
        if on {
            let (tx, rx) = oneshot::channel();
            let _ = w.nodes[i].actor.verif_on_actor_message(ToLiveActor::StartSync { namespace: ns, peers: vec![], reply: tx }).await;
            match rx.await {
                Ok(Ok(())) => {}
                other => return Err(("start-sync-failed".into(), json!({"err": format!("{other:?}")}))),
            }
            let _ = w.nodes[i].actor.verif_take_dials();
        }
    }
    let max_events = if ctx.is_quick() { 14 } else { 24 };
    let mut dial_budget = rng.range(1, if ctx.is_quick() { 6 } else { 8 });
    let mut events = 0;
    let mut downloads_queued = 0;
    let mut neighbor_downs = 0;
    loop {
        w.step += 1;
        // enabled events
        #[derive(Clone, Debug)]
        enum Ev {
            Decide(usize, usize),
            Deliver(usize),
            DeliverIntegrated(usize),
            Lose(usize),
            Reply(usize, bool),
            AbortEnd(usize),
            ConnectEnd(usize),
            AcceptEnd(usize),
            StartSyncAgain(usize),
            QueueDownload(usize),
            NeighborDown(usize, usize),
        }
        let mut evs: Vec<(Ev, u32)> = vec![];
        // gossip reports a neighbour down (it left the topic, or a connection broke) while sessions
        // with it come and go: a session in flight stays in flight (added after seeded change
        // agent-C11-10)
        if events < max_events && neighbor_downs < 2 && w.in_flight() > 0 {
            for x in 0..n {
                for y in 0..n {
                    if x != y && w.syncing[x] {
                        evs.push((Ev::NeighborDown(x, y), 1));
                    }
                }
            }
        }
        // sharing a document, or joining more peers, calls start_sync on a document that is being
        // synced already: whatever is in flight, the slots stay as they are
        if events < max_events && (w.in_flight() > 0 || rng.chance(1, 4)) {
            for x in 0..n {
                if w.syncing[x] {
                    evs.push((Ev::StartSyncAgain(x), 1));
                }
            }
        }
        if dial_budget > 0 && events < max_events {
            for x in 0..n {
                for y in 0..n {
                    if x != y {
                        // weight crossing dials up: prefer deciding when the other side already has a request in flight
                        let crossing = w.reqs.iter().any(|r| r.from == y && r.to == x);
                        evs.push((Ev::Decide(x, y), if crossing { 6 } else { 2 }));
                    }
                }
            }
        }
        // content downloads queued for the document while sessions come and go: the coordination
        // of sessions must not depend on them
        if events < max_events && downloads_queued < 2 {
            for x in 0..n {
                if w.syncing[x] {
                    evs.push((Ev::QueueDownload(x), 1));
                }
            }
        }
        for (i, _) in w.reqs.iter().enumerate() {
            evs.push((Ev::Deliver(i), 6));
            evs.push((Ev::DeliverIntegrated(i), 2));
            evs.push((Ev::Lose(i), 1));
        }
        for (i, _) in w.replies.iter().enumerate() {
            evs.push((Ev::Reply(i, true), 5));
            evs.push((Ev::Reply(i, false), 1));
        }
        for (i, _) in w.abort_ends.iter().enumerate() {
            evs.push((Ev::AbortEnd(i), 3));
        }
        for (i, s) in w.sessions.iter().enumerate() {
            if s.connect_pending {
                evs.push((Ev::ConnectEnd(i), 4));
            }
            if s.accept_pending {
                // overtaking: the acceptor's bookkeeping tends to come late
                evs.push((Ev::AcceptEnd(i), 2));
            }
        }
        if evs.is_empty() {
            break;
        }
        let total: u32 = evs.iter().map(|e| e.1).sum();
        let mut pick = rng.below(total as usize) as u32;
        let mut chosen = evs[0].0.clone();
        for (e, wgt) in &evs {
            if pick < *wgt {
                chosen = e.clone();
                break;
            }
            pick -= wgt;
        }
        events += 1;
        match chosen {
            Ev::Decide(x, y) => {
                dial_budget -= 1;
                let reason = *rng.pick(&[SyncReason::NewNeighbor, SyncReason::SyncReport, SyncReason::SyncReport, SyncReason::DirectJoin]);
                w.decide(x, y, reason).await?;
            }
            Ev::Deliver(i) => {
                // S2 bookkeeping: crossing pair (both created before either was delivered)
                let r = w.reqs[i].clone();
                // a pure simultaneous dial: both slots are occupied by the own dial and no session of
                // the pair is pending (otherwise declining both, or accepting sequentially, is legitimate)
                let pure = w.running(r.from, r.to).map(|s| s.starts_with("Connect")).unwrap_or(false)
                    && w.running(r.to, r.from).map(|s| s.starts_with("Connect")).unwrap_or(false)
                    && !w.sessions.iter().any(|s| (s.dialer == r.from && s.acceptor == r.to) || (s.dialer == r.to && s.acceptor == r.from))
                    && w.reqs.iter().filter(|o| (o.from == r.from && o.to == r.to) || (o.from == r.to && o.to == r.from)).count() == 2
                    && w.replies.iter().all(|p| !((p.req.from == r.from && p.req.to == r.to) || (p.req.from == r.to && p.req.to == r.from)));
                let crossing = if pure { w.reqs.iter().find(|o| o.from == r.to && o.to == r.from).cloned() } else { None };
                w.deliver(i).await?;
                if let Some(o) = crossing {
                    // remember the verdict of the first delivery for the pair
                    let first_allowed = w.sessions.iter().any(|s| s.dialer == r.from && s.acceptor == r.to && s.id + 1 == w.next_id);
                    w.kinds.push(if first_allowed { "crossing-first-allowed" } else { "crossing-first-declined" });
                    // deliver the other one right away half of the time (true simultaneity), and check S2
                    if rng.chance(1, 2) {
                        if let Some(j) = w.reqs.iter().position(|q| q.id == o.id) {
                            let before_sessions = w.sessions.len();
                            w.deliver(j).await?;
                            let second_allowed = w.sessions.len() > before_sessions;
                            ctx.count("simultaneous_dials_resolved", 1);
                            if w.syncing[r.from] && w.syncing[r.to] && first_allowed == second_allowed {
                                return Err((
                                    if first_allowed { "simultaneous-dials-both-accepted".into() } else { "simultaneous-dials-both-declined".into() },
                                    json!({"trace": w.trace}),
                                ));
                            }
                        }
                    }
                }
            }
            Ev::DeliverIntegrated(i) => {
                ctx.count("requests_through_the_real_acceptor", 1);
                w.deliver_integrated(i, rng).await?;
            }
            Ev::Lose(i) => {
                let r = w.reqs.remove(i);
                w.kinds.push("lose-request");
                let e = connect_err(rng);
                w.connect_finished(r.from, r.to, r.reason, Err(e), "request lost").await?;
            }
            Ev::Reply(i, delivered) => {
                let r = w.replies.remove(i);
                w.kinds.push(if delivered { "reply" } else { "reply-lost" });
                let res = if delivered { Err(ConnectError::RemoteAbort(r.reason)) } else { Err(ConnectError::Sync { error: err() }) };
                w.connect_finished(r.req.from, r.req.to, r.req.reason, res, if delivered { "decline reply" } else { "decline reply lost" }).await?;
            }
            Ev::AbortEnd(i) => {
                let a = w.abort_ends.remove(i);
                w.kinds.push("abort-end");
                let peer = w.nodes[a.peer].id;
                w.accept_finished(a.at, a.peer, Err(AcceptError::Abort { peer, namespace: ns, reason: a.reason }), "declined request ends").await?;
            }
            Ev::ConnectEnd(i) => {
                let (x, y, reason) = (w.sessions[i].dialer, w.sessions[i].acceptor, w.sessions[i].reason);
                w.sessions[i].connect_pending = false;
                let peer = w.nodes[y].id;
                let res = match rng.below(4) {
                    0 => Err(ConnectError::Sync { error: err() }),
                    1 => Err(ConnectError::Close { error: err() }),
                    _ => Ok(finished(ns, peer)),
                };
                w.kinds.push(if res.is_ok() { "connect-end-ok" } else { "connect-end-err" });
                w.connect_finished(x, y, reason, res, "session end").await?;
            }
            Ev::QueueDownload(x) => {
                // an entry arrives at x (gossip or an earlier session) whose content x wants and the
                // sender has: the live actor queues a download, which never completes here
                downloads_queued += 1;
                let y = (x + 1) % n;
                let data = format!("c11-content-{}-{}", w.step, rng.next_u64());
                let rec = iroh_docs::Record::new(iroh_blobs::Hash::new(data.as_bytes()), data.len() as u64, 1_700_000_000_000_000 + w.step as u64);
                let author = iroh_docs::Author::from_bytes(&[21u8; 32]);
                let entry = iroh_docs::SignedEntry::from_parts(ns_secret, &author, format!("k{}", w.step).as_bytes(), rec);
                let ev = iroh_docs::Event::RemoteInsert { namespace: ns, entry, from: *w.nodes[y].id.as_bytes(), should_download: true, remote_content_status: iroh_docs::ContentStatus::Complete };
                let before: Vec<Option<String>> = (0..n).map(|y| if y == x { None } else { w.running(x, y) }).collect();
                let _ = w.nodes[x].actor.verif_on_replica_event(ev).await;
                let dials = w.nodes[x].actor.verif_take_dials();
                w.kinds.push("queue-download");
                ctx.count("content_downloads_queued", 1);
                w.trace.push(format!("{}: n{x} queues a content download for the document", w.step));
                if !dials.is_empty() || (0..n).any(|y| y != x && w.running(x, y) != before[y]) {
                    return Err(("content-download-changed-the-session-coordination".into(), json!({"node": x, "trace": w.trace})));
                }
            }
            Ev::NeighborDown(x, y) => {
                neighbor_downs += 1;
                let before: Vec<Option<String>> = (0..n).map(|z| if z == x { None } else { w.running(x, z) }).collect();
                let peer = w.nodes[y].id;
                let _ = w.nodes[x].actor.verif_on_actor_message(ToLiveActor::NeighborDown { namespace: ns, peer }).await;
                let dials = w.nodes[x].actor.verif_take_dials();
                w.kinds.push("neighbor-down");
                ctx.count("neighbor_down_reports", 1);
                w.trace.push(format!("{}: gossip tells n{x} that n{y} is down", w.step));
                if !dials.is_empty() || (0..n).any(|z| z != x && w.running(x, z) != before[z]) {
                    return Err(("neighbor-down-changed-the-session-coordination".into(), json!({"node": x, "peer": y, "before": before, "after": (0..n).map(|z| if z == x { None } else { w.running(x, z) }).collect::<Vec<_>>(), "trace": w.trace})));
                }
            }
            Ev::StartSyncAgain(x) => {
                let before: Vec<Option<String>> = (0..n).map(|y| if y == x { None } else { w.running(x, y) }).collect();
                let (tx, rx) = oneshot::channel();
                let _ = w.nodes[x].actor.verif_on_actor_message(ToLiveActor::StartSync { namespace: ns, peers: vec![], reply: tx }).await;
                let ok = matches!(rx.await, Ok(Ok(())));
                w.kinds.push("start-sync-again");
                ctx.count("start_sync_on_a_document_already_syncing", 1);
                let dials = w.nodes[x].actor.verif_take_dials();
                w.trace.push(format!("{}: n{x} start_sync again (document already syncing) -> {}{}", w.step, if ok { "ok" } else { "error" }, if dials.is_empty() { String::new() } else { format!(", {} dial(s) to stored peers", dials.len()) }));
                if !ok {
                    return Err(("start-sync-of-a-syncing-document-failed".into(), json!({"node": x, "trace": w.trace})));
                }
                let mut dialled = vec![false; n];
                for (dns, peer, reason) in dials {
                    let Some(y) = (0..n).find(|y| w.nodes[*y].id == peer) else {
                        return Err(("dial-to-unexpected-peer-or-document".into(), json!({"trace": w.trace})));
                    };
                    if dns != ns || y == x {
                        return Err(("dial-to-unexpected-peer-or-document".into(), json!({"trace": w.trace})));
                    }
                    if before[y].is_some() || dialled[y] {
                        return Err(("dial-decided-while-slot-busy".into(), json!({"node": x, "busy": before[y], "trace": w.trace})));
                    }
                    dialled[y] = true;
                    let id = w.next_id;
                    w.next_id += 1;
                    w.reqs.push(Req { id, from: x, to: y, reason, born: w.step });
                }
                for y in 0..n {
                    if y != x && !dialled[y] && w.running(x, y) != before[y] {
                        return Err(("start-sync-of-a-syncing-document-changed-a-slot".into(), json!({"node": x, "peer": y, "before": before[y], "after": w.running(x, y), "trace": w.trace})));
                    }
                }
            }
            Ev::AcceptEnd(i) => {
                let (x, y) = (w.sessions[i].dialer, w.sessions[i].acceptor);
                w.sessions[i].accept_pending = false;
                let peer = w.nodes[x].id;
                let res = match rng.below(4) {
                    0 => Err(AcceptError::Sync { peer, namespace: Some(ns), error: err() }),
                    1 => Err(AcceptError::Close { peer, namespace: Some(ns), error: err() }),
                    _ => Ok(finished(ns, peer)),
                };
                w.kinds.push(if res.is_ok() { "accept-end-ok" } else { "accept-end-err" });
                w.accept_finished(y, x, res, "session end").await?;
            }
        }
        w.sessions.retain(|s| s.connect_pending || s.accept_pending);
        ctx.distinct("states", w.state_hash());
        ctx.count("events", 1);
        // S4 at quiescence
        if w.in_flight() == 0 {
            ctx.count("quiescent_points", 1);
            for x in 0..n {
                for y in 0..n {
                    if x != y && w.syncing[x] {
                        if let Some(r) = w.running(x, y) {
                            return Err((
                                format!("slot-busy-with-nothing-in-flight[{}]", r.split('(').next().unwrap_or("").trim()),
                                json!({"node": x, "peer": y, "state": r, "lower_id_node": if w.nodes[0].id.as_bytes() < w.nodes[1].id.as_bytes() {0} else {1}, "trace": w.trace}),
                            ));
                        }
                    }
                }
            }
            if dial_budget == 0 || events >= max_events {
                break;
            }
        }
    }
    // final probe: a fresh dial must be decided, delivered and allowed (only if everything is synced)
    if w.in_flight() == 0 && unsynced.is_none() {
        let (x, y) = (rng.below(n), 0);
        let y = if x == y { 1 } else { y };
        w.oblig[x][y] = None;
        w.step += 1;
        w.decide(x, y, SyncReason::DirectJoin).await?;
        let Some(i) = w.reqs.iter().position(|r| r.from == x && r.to == y) else {
            return Err(("fresh-dial-not-started-at-quiescence".into(), json!({"trace": w.trace})));
        };
        w.deliver(i).await?;
        let Some(si) = w.sessions.iter().position(|s| s.dialer == x && s.acceptor == y) else {
            return Err(("fresh-dial-not-accepted-at-quiescence".into(), json!({"trace": w.trace})));
        };
        let (px, py) = (w.nodes[x].id, w.nodes[y].id);
        w.sessions.remove(si);
        w.connect_finished(x, y, SyncReason::DirectJoin, Ok(finished(ns, py)), "probe").await?;
        w.accept_finished(y, x, Ok(finished(ns, px)), "probe").await?;
        ctx.count("probes_completed", 1);
        for (a, b) in [(x, y), (y, x)] {
            if let Some(r) = w.running(a, b) {
                return Err(("slot-busy-after-completed-probe-session".into(), json!({"node": a, "state": r, "trace": w.trace})));
            }
        }
    }
    let _ = Arc::new(0);
    Ok(())
}


/// A node leaves the document while a session with its peer is in flight and joins it again; the
/// two ends of the old session finish, successfully or not, before or after the node is back, in
/// any order. Whatever happens in between is left to the real handlers; what is judged is the
/// statement's last clause: once nothing is in flight any more, both nodes are ready to start and
/// to accept a session with each other (slots idle in the snapshot, and a fresh dial in either
/// direction is decided, delivered and allowed).
async fn leave_history(ctx: &mut Ctx, _case: u64, rng: &mut Rng, w: &mut World, ns_secret: &NamespaceSecret) -> Result<(), Viol> {
    let ns = w.ns;
    let n = w.nodes.len();
    for i in 0..n {
        w.syncing.push(true);
        let _ = w.nodes[i].sync.import_namespace(Capability::Write(ns_secret.clone())).await;
        let (tx, rx) = oneshot::channel();
        let _ = w.nodes[i].actor.verif_on_actor_message(ToLiveActor::StartSync { namespace: ns, peers: vec![], reply: tx }).await;
        match rx.await {
            Ok(Ok(())) => {}
            other => return Err(("start-sync-failed".into(), json!({"err": format!("{other:?}")}))),
        }
        let _ = w.nodes[i].actor.verif_take_dials();
    }
    let x = rng.below(2); // the node that leaves
    let y = 1 - x;
    let (d, a) = if rng.chance(1, 2) { (x, y) } else { (y, x) };
    w.step += 1;
    w.decide(d, a, *rng.pick(&[SyncReason::DirectJoin, SyncReason::NewNeighbor])).await?;
    let Some(i) = w.reqs.iter().position(|r| r.from == d && r.to == a) else {
        return Err(("fresh-dial-not-started-at-quiescence".into(), json!({"trace": w.trace})));
    };
    w.step += 1;
    w.deliver(i).await?;
    if !w.sessions.iter().any(|s| s.dialer == d && s.acceptor == a) {
        return Err(("fresh-dial-not-accepted-at-quiescence".into(), json!({"trace": w.trace})));
    }
    // the node leaves
    w.step += 1;
    {
        let (tx, rx) = oneshot::channel();
        let _ = w.nodes[x].actor.verif_on_actor_message(ToLiveActor::Leave { namespace: ns, kill_subscribers: false, reply: tx }).await;
        if !matches!(rx.await, Ok(Ok(()))) {
            return Err(("leave-failed".into(), json!({"trace": w.trace})));
        }
        let _ = w.nodes[x].actor.verif_take_dials();
    }
    w.syncing[x] = false;
    for s in w.sessions.iter_mut() {
        s.abandoned = true;
    }
    w.trace.push(format!("{}: n{x} leaves the document ({} of the session in flight)", w.step, if x == d { "dialer" } else { "acceptor" }));
    w.kinds.push("leave");
    ctx.count("histories_with_leave_and_rejoin", 1);
    let while_left = rng.below(3); // how many of the two ends finish while the node is away
    let mut rejoined = false;
    let mut ends_done = 0;
    loop {
        w.step += 1;
        if !rejoined && ends_done >= while_left {
            let (tx, rx) = oneshot::channel();
            let _ = w.nodes[x].actor.verif_on_actor_message(ToLiveActor::StartSync { namespace: ns, peers: vec![], reply: tx }).await;
            if !matches!(rx.await, Ok(Ok(()))) {
                return Err(("start-sync-failed".into(), json!({"trace": w.trace})));
            }
            w.syncing[x] = true;
            rejoined = true;
            let dials = w.nodes[x].actor.verif_take_dials();
            w.trace.push(format!("{}: n{x} joins the document again{}", w.step, if dials.is_empty() { String::new() } else { format!(", {} dial(s) to stored peers", dials.len()) }));
            w.kinds.push("rejoin");
            for (dns, peer, reason) in dials {
                let Some(to) = w.nodes.iter().position(|nd| nd.id == peer) else { continue };
                if dns != ns || to == x {
                    return Err(("dial-to-unexpected-peer-or-document".into(), json!({"trace": w.trace})));
                }
                let id = w.next_id;
                w.next_id += 1;
                w.reqs.push(Req { id, from: x, to, reason, born: w.step });
            }
            continue;
        }
        // anything in flight, in any order
        #[derive(Clone)]
        enum Ev {
            Deliver(usize),
            Reply(usize),
            AbortEnd(usize),
            ConnectEnd(usize),
            AcceptEnd(usize),
        }
        let mut evs = vec![];
        if rejoined {
            evs.extend((0..w.reqs.len()).map(Ev::Deliver));
            evs.extend((0..w.replies.len()).map(Ev::Reply));
            evs.extend((0..w.abort_ends.len()).map(Ev::AbortEnd));
        }
        for (i, s) in w.sessions.iter().enumerate() {
            if s.connect_pending {
                evs.push(Ev::ConnectEnd(i));
            }
            if s.accept_pending {
                evs.push(Ev::AcceptEnd(i));
            }
        }
        if evs.is_empty() {
            if rejoined {
                break;
            }
            ends_done = while_left;
            continue;
        }
        match rng.pick(&evs).clone() {
            Ev::Deliver(i) => w.deliver(i).await?,
            Ev::Reply(i) => {
                let r = w.replies.remove(i);
                w.kinds.push("reply");
                w.connect_finished(r.req.from, r.req.to, r.req.reason, Err(ConnectError::RemoteAbort(r.reason)), "decline reply").await?;
            }
            Ev::AbortEnd(i) => {
                let a = w.abort_ends.remove(i);
                w.kinds.push("abort-end");
                let peer = w.nodes[a.peer].id;
                w.accept_finished(a.at, a.peer, Err(AcceptError::Abort { peer, namespace: ns, reason: a.reason }), "declined request ends").await?;
            }
            Ev::ConnectEnd(i) => {
                let (dx, dy, reason) = (w.sessions[i].dialer, w.sessions[i].acceptor, w.sessions[i].reason);
                w.sessions[i].connect_pending = false;
                let peer = w.nodes[dy].id;
                let res = if rng.chance(1, 3) { Err(ConnectError::Sync { error: err() }) } else { Ok(finished(ns, peer)) };
                w.kinds.push(if res.is_ok() { "connect-end-ok" } else { "connect-end-err" });
                w.connect_finished(dx, dy, reason, res, if rejoined { "session end" } else { "session end while away" }).await?;
                ends_done += 1;
            }
            Ev::AcceptEnd(i) => {
                let (dx, dy) = (w.sessions[i].dialer, w.sessions[i].acceptor);
                w.sessions[i].accept_pending = false;
                let peer = w.nodes[dx].id;
                let res = if rng.chance(1, 3) { Err(AcceptError::Sync { peer, namespace: Some(ns), error: err() }) } else { Ok(finished(ns, peer)) };
                w.kinds.push(if res.is_ok() { "accept-end-ok" } else { "accept-end-err" });
                w.accept_finished(dy, dx, res, if rejoined { "session end" } else { "session end while away" }).await?;
                ends_done += 1;
            }
        }
        w.sessions.retain(|s| s.connect_pending || s.accept_pending);
        ctx.distinct("states", w.state_hash());
        ctx.count("events", 1);
    }
    // quiescence: nothing in flight
    ctx.count("quiescent_points", 1);
    for (p, q) in [(x, y), (y, x)] {
        if let Some(r) = w.running(p, q) {
            return Err((
                format!("slot-busy-with-nothing-in-flight[{}]", r.split('(').next().unwrap_or("").trim()),
                json!({"node": p, "peer": q, "state": r, "after": "leave and rejoin", "trace": w.trace}),
            ));
        }
    }
    for (p, q) in [(x, y), (y, x)] {
        w.step += 1;
        w.decide(p, q, SyncReason::DirectJoin).await?;
        let Some(i) = w.reqs.iter().position(|r| r.from == p && r.to == q) else {
            return Err(("fresh-dial-not-started-at-quiescence".into(), json!({"trace": w.trace})));
        };
        w.deliver(i).await?;
        let Some(si) = w.sessions.iter().position(|s| s.dialer == p && s.acceptor == q) else {
            return Err(("fresh-dial-not-accepted-at-quiescence".into(), json!({"trace": w.trace})));
        };
        let (pp, pq) = (w.nodes[p].id, w.nodes[q].id);
        w.sessions.remove(si);
        w.connect_finished(p, q, SyncReason::DirectJoin, Ok(finished(ns, pq)), "probe").await?;
        w.accept_finished(q, p, Ok(finished(ns, pp)), "probe").await?;
        ctx.count("probes_completed", 1);
    }
    Ok(())
}
