//! C17 — the useful-peer list is a bounded most-recently-used list.

use iroh_docs::{store::Store, Capability};
use serde_json::json;

use crate::{
    ctx::Ctx,
    gen::namespace,
    rng::h64,
    util::{new_store, Backend, Scratch},
};

pub fn run(ctx: &mut Ctx) {
    let scratch = Scratch::new();
    for case in ctx.cases(3_000, 200_000) {
        let mut rng = ctx.rng(case);
        let file = rng.chance(1, 5);
        let backend = if file { Backend::File } else { Backend::Memory };
        let (mut store, path) = new_store(backend, &scratch);
        let docs = [namespace(1), namespace(2)];
        for d in &docs {
            store.import_namespace(Capability::Write(d.clone())).unwrap();
        }
        let unknown = namespace(3).id();
        let n_peers = rng.range(1, 8);
        let peers: Vec<[u8; 32]> = (0..n_peers).map(|i| { let mut p = [i as u8 + 1; 32]; p[0] = rng.next_u64() as u8; p }).collect();
        let mut model: [Vec<[u8; 32]>; 2] = [vec![], vec![]];
        let steps = rng.range(1, 40);
        let mut trace = vec![];
        let mut evicted = false;
        let mut refreshed = false;
        ctx.eval();
        for step in 0..steps {
            if rng.chance(1, 15) {
                ctx.count("unknown_document_registrations", 1);
                if store.register_useful_peer(unknown, *rng.pick(&peers)).is_ok() {
                    ctx.violation(case, "registered-peer-for-unknown-document", json!({"trace": trace}));
                }
                if store.get_sync_peers(&unknown).ok().flatten().is_some() {
                    ctx.violation(case, "unknown-document-has-peers", json!({"trace": trace}));
                }
                continue;
            }
            if file && rng.chance(1, 10) {
                store.flush().unwrap();
                drop(store);
                store = Store::persistent(path.as_ref().unwrap()).expect("reopen");
                trace.push("reopen".to_string());
                ctx.count("reopens", 1);
            } else {
                let d = rng.below(2);
                let pi = rng.below(peers.len());
                let p = peers[pi];
                if let Err(e) = store.register_useful_peer(docs[d].id(), p) {
                    ctx.violation(case, "registration-failed", json!({"err": format!("{e:?}"), "trace": trace}));
                    break;
                }
                trace.push(format!("doc{d}<-p{pi}"));
                let m = &mut model[d];
                if let Some(pos) = m.iter().position(|x| *x == p) {
                    m.remove(pos);
                    refreshed = true;
                }
                m.insert(0, p);
                if m.len() > 5 {
                    m.truncate(5);
                    evicted = true;
                }
                ctx.count("registrations", 1);
            }
            for d in 0..2 {
                let got = match store.get_sync_peers(&docs[d].id()) {
                    Ok(g) => g.map(|i| i.collect::<Vec<_>>()).unwrap_or_default(),
                    Err(e) => {
                        ctx.violation(case, "get-peers-failed", json!({"err": format!("{e:?}")}));
                        return;
                    }
                };
                ctx.count("list_checks", 1);
                if got != model[d] {
                    let name = |v: &Vec<[u8; 32]>| v.iter().map(|p| format!("p{}", peers.iter().position(|x| x == p).map(|i| i as i64).unwrap_or(-1))).collect::<Vec<_>>();
                    let sig = if got.len() > 5 {
                        "more-than-five-peers"
                    } else if got.len() != got.iter().collect::<std::collections::BTreeSet<_>>().len() {
                        "duplicate-peer"
                    } else if trace.last().map(|s| s == "reopen").unwrap_or(false) {
                        "list-changed-by-reopen"
                    } else if got.iter().collect::<std::collections::BTreeSet<_>>() == model[d].iter().collect::<std::collections::BTreeSet<_>>() {
                        "wrong-order"
                    } else {
                        "wrong-peers-kept"
                    };
                    ctx.violation(case, sig, json!({"doc": d, "step": step, "got": name(&got), "expected": name(&model[d]), "trace": trace}));
                    return;
                }
            }
        }
        if evicted && refreshed {
            ctx.nontrivial(h64(format!("{trace:?}").as_bytes()));
        }
        if ctx.want_sample() {
            ctx.sample(json!({"case": case, "trace": trace}));
        }
    }
}
