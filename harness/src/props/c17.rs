//! C17 — the useful-peer list is a bounded most-recently-used list.

use iroh_docs::{store::Store, Capability};
use serde_json::json;

use crate::{
    ctx::Ctx,
    gen::namespace,
    rng::h64,
    util::{new_store, Backend, Scratch},
};

pub fn run(ctx: &mut Ctx) {
    let scratch = Scratch::new();
    for case in ctx.cases(3_000, 200_000) {
        let mut rng = ctx.rng(case);
        if rng.chance(1, 6) {
            actor_case(ctx, case, &mut rng, &scratch);
            continue;
        }
        let file = rng.chance(1, 5);
        let backend = if file { Backend::File } else { Backend::Memory };
        let (mut store, mut path) = new_store(backend, &scratch);
        let docs = [namespace(1), namespace(2)];
        // each document starts read-only or writable; capabilities are imported again later
        let mut writable = [rng.chance(1, 2), rng.chance(1, 2)];
        for (i, d) in docs.iter().enumerate() {
            let cap = if writable[i] { Capability::Write(d.clone()) } else { Capability::Read(d.id()) };
            store.import_namespace(cap).unwrap();
        }
        let unknown = namespace(3).id();
        let n_peers = rng.range(1, 8);
        let peers: Vec<[u8; 32]> = (0..n_peers).map(|i| { let mut p = [i as u8 + 1; 32]; p[0] = rng.next_u64() as u8; p }).collect();
        let mut model: [Vec<[u8; 32]>; 2] = [vec![], vec![]];
        let steps = rng.range(1, 40);
        let mut trace = vec![];
        let mut evicted = false;
        let mut refreshed = false;
        let mut blind = 0usize;
        ctx.eval();
        for step in 0..steps {
            if rng.chance(1, 15) {
                ctx.count("unknown_document_registrations", 1);
                if store.register_useful_peer(unknown, *rng.pick(&peers)).is_ok() {
                    ctx.violation(case, "registered-peer-for-unknown-document", json!({"trace": trace}));
                }
                if store.get_sync_peers(&unknown).ok().flatten().is_some() {
                    ctx.violation(case, "unknown-document-has-peers", json!({"trace": trace}));
                }
                continue;
            }
            if rng.chance(1, 8) {
                // store operations that are not about peers must leave every list alone
                let d = rng.below(2);
                match rng.below(6) {
                    0 | 1 => {
                        let write = rng.chance(1, 2);
                        let cap = if write { Capability::Write(docs[d].clone()) } else { Capability::Read(docs[d].id()) };
                        let r = store.import_namespace(cap);
                        trace.push(format!("import {} capability for doc{d} (held: {}) -> {}", if write { "write" } else { "read" }, if writable[d] { "write" } else { "read" }, r.is_ok()));
                        if write && r.is_ok() {
                            if !writable[d] {
                                ctx.count("capability_upgrades_with_peers_registered", (!model[d].is_empty()) as u64);
                            }
                            writable[d] = true;
                        }
                    }
                    2 => {
                        let _ = store.set_download_policy(&docs[d].id(), iroh_docs::store::DownloadPolicy::default());
                        trace.push(format!("set download policy of doc{d}"));
                    }
                    3 => {
                        let _ = store.list_namespaces().map(|i| i.count());
                        trace.push("list documents".to_string());
                    }
                    4 => {
                        let r = store.open_replica(&docs[d].id()).map(|_| ());
                        store.close_replica(docs[d].id());
                        trace.push(format!("open and close doc{d} -> {}", r.is_ok()));
                    }
                    _ => {
                        // removal forgets the list; the document can be imported again and starts empty
                        let r = store.remove_replica(&docs[d].id());
                        trace.push(format!("remove doc{d} -> {}", r.is_ok()));
                        if r.is_ok() {
                            model[d].clear();
                            if store.register_useful_peer(docs[d].id(), peers[0]).is_ok() {
                                ctx.violation(case, "registered-peer-for-removed-document", json!({"trace": trace}));
                                return;
                            }
                            writable[d] = rng.chance(1, 2);
                            let cap = if writable[d] { Capability::Write(docs[d].clone()) } else { Capability::Read(docs[d].id()) };
                            store.import_namespace(cap).unwrap();
                            trace.push(format!("import doc{d} again ({})", if writable[d] { "write" } else { "read" }));
                        }
                    }
                }
                ctx.count("other_store_operations", 1);
            } else if file && rng.chance(1, 10) {
                store.flush().unwrap();
                drop(store);
                if rng.chance(1, 3) {
                    // the same rows in a file of the on-disk format of iroh-docs 0.94..=0.98, which the
                    // open converts: the upgrade is a reopen like any other for the user
                    let old = scratch.path(&format!("c17-old-{case}-{step}.redb"));
                    match crate::oldfile::write_old_format(path.as_ref().unwrap(), &old, Default::default()) {
                        Ok(c) => ctx.count("peer_rows_in_old_format_files", c.peers as u64),
                        Err(e) => {
                            ctx.harness_error(format!("writing an old-format file failed: {e:?}"));
                            return;
                        }
                    }
                    if !crate::oldfile::is_refused_by_current_redb(&old) {
                        ctx.harness_error("the old-format file is not refused by the current redb");
                        return;
                    }
                    path = Some(old);
                    trace.push("reopen as old-format file".to_string());
                    ctx.count("reopens_of_old_format_files", 1);
                } else {
                    trace.push("reopen".to_string());
                }
                store = match Store::persistent(path.as_ref().unwrap()) {
                    Ok(s) => s,
                    Err(e) => {
                        ctx.violation(case, "reopen-failed", json!({"err": format!("{e:?}"), "trace": trace}));
                        return;
                    }
                };
                ctx.count("reopens", 1);
                // Half of the reopens are followed by one to three steps after which the lists are not
                // read (added after seeded change agent-C17-10): a store that answers from what it
                // remembers of this process must have the whole list in mind before the first read,
                // whatever came first after the open — a read or a registration.
                if rng.chance(1, 2) {
                    blind = 1 + rng.range(1, 3);
                    ctx.count("reopens_followed_by_registrations_before_the_first_read", 1);
                }
            } else {
                let d = rng.below(2);
                let pi = rng.below(peers.len());
                let p = peers[pi];
                // On a file, one registration in three is cut by the age-based commit at one of its
                // store accesses, and the database file is copied at that instant: what a process that
                // died right there leaves behind (added after seeded change agent-C17-7).
                let model_before = model.clone();
                let crash_at = if file && rng.chance(1, 3) {
                    let _ = store.flush();
                    let start = iroh_docs::verif::store_accesses();
                    let at = rng.below(4);
                    let img = scratch.path("c17img");
                    let (db2, img2) = (path.clone().unwrap(), img.clone());
                    iroh_docs::verif::set_access_callback(Some(Box::new(move |n| {
                        if n == start + at {
                            let _ = std::fs::copy(&db2, &img2);
                        }
                    })));
                    iroh_docs::verif::age_transaction_at(start + at);
                    Some((img, at))
                } else {
                    None
                };
                let reg = store.register_useful_peer(docs[d].id(), p);
                if crash_at.is_some() {
                    iroh_docs::verif::set_access_callback(None);
                    iroh_docs::verif::age_transaction_at(usize::MAX);
                }
                if let Err(e) = reg {
                    ctx.violation(case, "registration-failed", json!({"err": format!("{e:?}"), "trace": trace}));
                    break;
                }
                trace.push(format!("doc{d}<-p{pi}"));
                let m = &mut model[d];
                if let Some(pos) = m.iter().position(|x| *x == p) {
                    m.remove(pos);
                    refreshed = true;
                }
                m.insert(0, p);
                if m.len() > 5 {
                    m.truncate(5);
                    evicted = true;
                }
                ctx.count("registrations", 1);
                if let Some((img, at)) = crash_at {
                    if img.exists() {
                        ctx.count("crash_images_inside_a_registration", 1);
                        match Store::persistent(&img) {
                            Err(e) => {
                                ctx.violation(case, "crash-image-of-a-registration-does-not-open", json!({"access": at, "err": format!("{e:?}"), "trace": trace}));
                                return;
                            }
                            Ok(mut s2) => {
                                for dd in 0..2 {
                                    let got = s2.get_sync_peers(&docs[dd].id()).ok().flatten().map(|i| i.collect::<Vec<_>>()).unwrap_or_default();
                                    if got != model_before[dd] && got != model[dd] {
                                        let name = |v: &Vec<[u8; 32]>| v.iter().map(|p| format!("p{}", peers.iter().position(|x| x == p).map(|i| i as i64).unwrap_or(-1))).collect::<Vec<_>>();
                                        let sig = if got.len() > 5 { "crash-inside-a-registration-leaves-more-than-five-peers" } else { "crash-inside-a-registration-leaves-a-list-that-never-existed" };
                                        ctx.violation(case, sig, json!({"doc": dd, "store_access_of_the_registration": at, "got": name(&got), "before": name(&model_before[dd]), "after": name(&model[dd]), "trace": trace}));
                                        return;
                                    }
                                }
                            }
                        }
                        let _ = std::fs::remove_file(&img);
                    }
                }
            }
            if blind > 0 {
                blind -= 1;
                if blind > 0 && step + 1 < steps {
                    continue;
                }
            }
            for d in 0..2 {
                let got = match store.get_sync_peers(&docs[d].id()) {
                    Ok(g) => g.map(|i| i.collect::<Vec<_>>()).unwrap_or_default(),
                    Err(e) => {
                        ctx.violation(case, "get-peers-failed", json!({"err": format!("{e:?}")}));
                        return;
                    }
                };
                ctx.count("list_checks", 1);
                if got != model[d] {
                    let name = |v: &Vec<[u8; 32]>| v.iter().map(|p| format!("p{}", peers.iter().position(|x| x == p).map(|i| i as i64).unwrap_or(-1))).collect::<Vec<_>>();
                    let sig = if got.len() > 5 {
                        "more-than-five-peers"
                    } else if got.len() != got.iter().collect::<std::collections::BTreeSet<_>>().len() {
                        "duplicate-peer"
                    } else if trace.last().map(|s| s == "reopen as old-format file").unwrap_or(false) {
                        "list-changed-by-reopen-of-old-format-file"
                    } else if trace.last().map(|s| s == "reopen").unwrap_or(false) {
                        "list-changed-by-reopen"
                    } else if got.iter().collect::<std::collections::BTreeSet<_>>() == model[d].iter().collect::<std::collections::BTreeSet<_>>() {
                        "wrong-order"
                    } else {
                        "wrong-peers-kept"
                    };
                    ctx.violation(case, sig, json!({"doc": d, "step": step, "got": name(&got), "expected": name(&model[d]), "trace": trace}));
                    return;
                }
            }
        }
        if evicted && refreshed {
            ctx.nontrivial(h64(format!("{trace:?}").as_bytes()));
        }
        if ctx.want_sample() {
            ctx.sample(json!({"case": case, "trace": trace}));
        }
    }
}

/// The same list behind the store actor (added after seeded change agent-C17-9): sessions register
/// their peer through the `SyncHandle`, whether or not the document is open in the actor at that
/// moment (a session that ends after the node left the document, a registration before the first
/// open). Registrations through the handle are registrations like any other.
fn actor_case(ctx: &mut Ctx, case: u64, rng: &mut crate::rng::Rng, scratch: &Scratch) {
    use iroh_docs::actor::OpenOpts;
    let file = rng.chance(1, 4);
    let (mut store, _path) = new_store(if file { Backend::File } else { Backend::Memory }, scratch);
    let docs = [namespace(1), namespace(2)];
    for d in docs.iter() {
        let cap = if rng.chance(1, 2) { Capability::Write(d.clone()) } else { Capability::Read(d.id()) };
        store.import_namespace(cap).unwrap();
    }
    let unknown = namespace(3).id();
    let h = crate::act::spawn(store);
    let rt = crate::act::runtime(1);
    let n_peers = rng.range(1, 8);
    let peers: Vec<[u8; 32]> = (0..n_peers).map(|i| [i as u8 + 1; 32]).collect();
    let mut model: [Vec<[u8; 32]>; 2] = [vec![], vec![]];
    let mut open = [0usize; 2];
    let mut trace = vec![];
    let (mut evicted, mut refreshed, mut while_closed) = (false, false, false);
    ctx.eval();
    ctx.count("histories_through_the_store_actor", 1);
    rt.block_on(async {
        for _ in 0..rng.range(1, 30) {
            let d = rng.below(2);
            let id = docs[d].id();
            match rng.below(10) {
                0 => {
                    let r = h.register_useful_peer(unknown, *rng.pick(&peers)).await;
                    trace.push(format!("register for a document the store does not have -> {}", r.is_ok()));
                    if r.is_ok() {
                        ctx.violation(case, "registered-peer-for-unknown-document", json!({"through": "store actor", "trace": trace}));
                        return;
                    }
                }
                1 | 2 => {
                    let sync = rng.chance(1, 2);
                    let r = h.open(id, if sync { OpenOpts::default().sync() } else { OpenOpts::default() }).await;
                    trace.push(format!("open doc{d} -> {}", r.is_ok()));
                    if r.is_ok() {
                        open[d] += 1;
                    }
                }
                3 if open[d] > 0 => {
                    let _ = h.close(id).await;
                    open[d] -= 1;
                    trace.push(format!("close doc{d} ({} handles left)", open[d]));
                }
                _ => {
                    let p = *rng.pick(&peers);
                    let r = h.register_useful_peer(id, p).await;
                    trace.push(format!("register peer {:02x} for doc{d} ({}) -> {}", p[0], if open[d] > 0 { "open" } else { "not open" }, r.is_ok()));
                    if r.is_err() {
                        ctx.violation(case, "registration-for-a-held-document-refused", json!({"through": "store actor", "trace": trace}));
                        return;
                    }
                    while_closed |= open[d] == 0;
                    if let Some(i) = model[d].iter().position(|x| *x == p) {
                        model[d].remove(i);
                        refreshed = true;
                    }
                    model[d].insert(0, p);
                    if model[d].len() > 5 {
                        model[d].truncate(5);
                        evicted = true;
                    }
                }
            }
            // the lists of both documents, read through the handle (which wants the document open)
            for (dd, doc) in docs.iter().enumerate() {
                let id = doc.id();
                let opened_here = open[dd] == 0;
                if opened_here && h.open(id, OpenOpts::default()).await.is_err() {
                    ctx.violation(case, "held-document-does-not-open", json!({"trace": trace}));
                    return;
                }
                let got: Vec<[u8; 32]> = h.get_sync_peers(id).await.ok().flatten().unwrap_or_default();
                if opened_here {
                    let _ = h.close(id).await;
                }
                if got != model[dd] {
                    let sig = if got.len() > 5 { "more-than-five-peers" } else if got.len() != model[dd].len() { "wrong-peers-kept" } else { "wrong-order" };
                    ctx.violation(case, sig, json!({"through": "store actor", "doc": dd, "got": got.iter().map(|p| p[0]).collect::<Vec<_>>(), "want": model[dd].iter().map(|p| p[0]).collect::<Vec<_>>(), "trace": trace}));
                    return;
                }
            }
        }
    });
    let _ = rt.block_on(h.shutdown());
    if evicted && refreshed {
        ctx.nontrivial(h64(trace.join("|").as_bytes()));
    }
    if while_closed {
        ctx.count("registrations_for_documents_not_open_in_the_actor", 1);
    }
}
