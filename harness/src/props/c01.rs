//! C01 — pairwise reconciliation converges to the join of both replicas.

use iroh_docs::{store::Store, SignedEntry};
use serde_json::json;

use crate::{
    ctx::Ctx,
    gen::Universe,
    model::{Model, E},
    rng::{h64, Rng},
    session::{self, Cfg},
    util::{dump_model, import_write, new_store, offer_remote, Backend, Scratch},
};

thread_local! {
    /// One case in four gives the replicas a previous life (see `build`).
    static PREVIOUS_LIFE: std::cell::Cell<Option<Vec<SignedEntry>>> = const { std::cell::Cell::new(None) };
}

fn build(uni: &Universe, offers: &[SignedEntry], backend: Backend, scratch: &Scratch) -> Store {
    let (mut s, _) = new_store(backend, scratch);
    import_write(&mut s, &uni.ns);
    // A previous life of the document on this store instance (added after seeded change agent-C01-8):
    // it held other entries, opened a session, was removed and imported again. "Whatever entries
    // each holds" is about what the replica holds now; nothing of the past may show in a session.
    let past = PREVIOUS_LIFE.with(|p| {
        let v = p.take();
        p.set(v.clone());
        v
    });
    if let Some(past) = past {
        for e in &past {
            offer_remote(&mut s, uni.ns.id(), e);
        }
        if let Ok(mut r) = s.open_replica(&uni.ns.id()) {
            let _ = r.sync_initial_message();
        }
        s.close_replica(uni.ns.id());
        let _ = s.remove_replica(&uni.ns.id());
        import_write(&mut s, &uni.ns);
    }
    for e in offers {
        offer_remote(&mut s, uni.ns.id(), e);
    }
    s
}

fn cfg(rng: &mut Rng) -> Cfg {
    if rng.chance(1, 2) {
        None
    } else {
        Some((*rng.pick(&[2usize, 3, 4, 5]), *rng.pick(&[1usize, 2, 3, 8])))
    }
}

pub fn run(ctx: &mut Ctx) {
    let scratch = Scratch::new();
    for case in ctx.cases(600, 60_000) {
        let mut rng = ctx.rng(case);
        let uni = Universe::new(&mut rng, 1);
        let max_n = if ctx.is_quick() { 24 } else { 64 };
        let na = rng.range(0, max_n);
        let nb = rng.range(0, max_n);
        let mut pool = uni.entries(&mut rng, na + nb, 4);
        // shared part: some of B's offers are copies of A's
        let mut offers_a: Vec<SignedEntry> = pool.drain(..na).collect();
        let mut offers_b: Vec<SignedEntry> = pool;
        for e in offers_a.iter() {
            if rng.chance(1, 3) {
                offers_b.push(e.clone());
            }
        }
        rng.shuffle(&mut offers_b);
        if rng.chance(1, 4) {
            let n = rng.range(1, 8);
            let past = uni.entries(&mut rng, n, 4);
            // half of these are the document that was dropped and joined again: one side is empty
            // now, the other still holds what both held before
            if rng.chance(1, 2) {
                offers_a.clear();
                offers_b = past.clone();
            }
            PREVIOUS_LIFE.with(|p| p.set(Some(past)));
            ctx.count("cases_with_a_previous_life_of_the_document", 1);
        } else {
            PREVIOUS_LIFE.with(|p| p.set(None));
        }
        let (ca, cb) = (cfg(&mut rng), cfg(&mut rng));
        let backends = match rng.below(10) {
            0 => (Backend::File, Backend::File),
            1 => (Backend::Memory, Backend::File),
            _ => (Backend::Memory, Backend::Memory),
        };
        ctx.eval();
        for initiator_is_a in [true, false] {
            let mut a = build(&uni, &offers_a, backends.0, &scratch);
            let mut b = build(&uni, &offers_b, backends.1, &scratch);
            let ns = uni.ns.id();
            let (a0, b0) = match (dump_model(&mut a, ns), dump_model(&mut b, ns)) {
                (Ok(x), Ok(y)) => (x, y),
                _ => {
                    ctx.violation(case, "dump-failed", json!({}));
                    continue;
                }
            };
            let join = Model::join(&a0, &b0);
            let budget = 64.max(4 * (a0.map.len() + b0.map.len()) + 16);
            let detail = |extra: serde_json::Value| {
                json!({"a0": a0.short(), "b0": b0.short(), "join": join.short(), "initiator": if initiator_is_a {"a"} else {"b"},
                       "cfg_a": format!("{ca:?}"), "cfg_b": format!("{cb:?}"), "backends": format!("{backends:?}"), "extra": extra})
            };
            let params = if ca.is_none() && cb.is_none() { "default".to_string() } else { "non-default".to_string() };
            let r = if initiator_is_a {
                session::run(&mut a, &mut b, ns, ca, cb, budget)
            } else {
                session::run(&mut b, &mut a, ns, cb, ca, budget)
            };
            ctx.count("sessions", 1);
            ctx.count("messages", r.transcript.len() as u64);
            ctx.distinct("session_lengths", r.transcript.len() as u64);
            if let Some(e) = &r.error {
                ctx.violation(case, &format!("session-error[{params}]"), detail(json!(e)));
                continue;
            }
            if r.exceeded_budget {
                ctx.violation(case, &format!("message-budget-exceeded[{params}]"), detail(json!({"messages": r.transcript.len(), "budget": budget})));
                continue;
            }
            if r.a.0 != r.b.1 || r.b.0 != r.a.1 {
                ctx.violation(case, "sent-received-counts-not-mirrored", detail(json!({"initiator": r.a, "acceptor": r.b})));
            }
            // One session in three is followed, before anything is read (a read commits the write
            // batch), by a call each store must refuse: it names a document the store does not have,
            // as a late completion does after its document was dropped. What the session stored must
            // not go with it (added after seeded change agent-C01-9).
            if case % 3 == 0 {
                let missing = crate::gen::namespace(200).id();
                for s in [&mut a, &mut b] {
                    let _ = s.register_useful_peer(missing, [9u8; 32]);
                    let _ = s.set_download_policy(&missing, iroh_docs::store::DownloadPolicy::default());
                }
                ctx.count("sessions_followed_by_a_refused_call", 1);
            }
            let (a1, b1) = (dump_model(&mut a, ns).unwrap(), dump_model(&mut b, ns).unwrap());
            if a1 != b1 {
                ctx.violation(case, &format!("replicas-differ-after-session[{params}]"), detail(json!({"a1": a1.short(), "b1": b1.short()})));
                continue;
            }
            if a1 != join {
                ctx.violation(case, &format!("result-is-not-the-join[{params}]"), detail(json!({"a1": a1.short()})));
                continue;
            }
            // the immediately following session transfers nothing
            let r2 = if initiator_is_a {
                session::run(&mut a, &mut b, ns, ca, cb, budget)
            } else {
                session::run(&mut b, &mut a, ns, cb, ca, budget)
            };
            ctx.count("follow_up_sessions", 1);
            if r2.error.is_some() || r2.exceeded_budget {
                ctx.violation(case, "follow-up-session-failed", detail(json!(format!("{:?}", r2.error))));
            } else if r2.values_per_message.iter().sum::<usize>() != 0 || r2.a != (0, 0) || r2.b != (0, 0) {
                ctx.violation(case, "follow-up-session-transferred-entries", detail(json!({"values": r2.values_per_message, "a": r2.a, "b": r2.b})));
            }
            let (a2, b2) = (dump_model(&mut a, ns).unwrap(), dump_model(&mut b, ns).unwrap());
            if a2 != join || b2 != join {
                ctx.violation(case, "follow-up-session-changed-state", detail(json!({})));
            }
            if initiator_is_a && a0 != b0 && !a0.map.is_empty() && !b0.map.is_empty() {
                let mut bytes = vec![];
                for e in a0.plain().iter().chain(b0.plain().iter()) {
                    bytes.extend_from_slice(e.short().as_bytes());
                    bytes.push(b'|');
                }
                ctx.nontrivial(h64(&bytes));
                if join.map.len() < a0.plain().union(&b0.plain()).count() {
                    ctx.count("pairs_where_join_prunes", 1);
                }
            }
            if ctx.want_sample() && initiator_is_a {
                ctx.sample(json!({"case": case, "a0": a0.short(), "b0": b0.short(), "join": join.short(), "messages": r.transcript.len(),
                    "cfg_a": format!("{ca:?}"), "cfg_b": format!("{cb:?}"), "counts": {"initiator": r.a, "acceptor": r.b}}));
            }
            let _ = E::of;
        }
        // one case in three also runs the session the way the engine runs it: both replicas behind
        // store actors, the real initiating and accepting session drivers over a byte stream, the
        // acceptor's outcome collected exactly as `handle_connection` collects it
        if case % 3 == 0 {
            drivers_pass(ctx, case, &uni, &offers_a, &offers_b, backends, &scratch, case % 2 == 0);
        }
    }
}

/// The same statement observed where the engine observes it (added after seeded change agent-C01-7,
/// which sits in the accepting driver): final sets, mirrored counts and the empty follow-up session.
fn drivers_pass(ctx: &mut Ctx, case: u64, uni: &Universe, offers_a: &[SignedEntry], offers_b: &[SignedEntry], backends: (Backend, Backend), scratch: &Scratch, initiator_is_a: bool) {
    use crate::props::c10::{one_session, End, Fault};
    use iroh_docs::actor::OpenOpts;
    let ns = uni.ns.id();
    let mut a = build(uni, offers_a, backends.0, scratch);
    let mut b = build(uni, offers_b, backends.1, scratch);
    let (a0, b0) = match (dump_model(&mut a, ns), dump_model(&mut b, ns)) {
        (Ok(x), Ok(y)) => (x, y),
        _ => return,
    };
    let join = Model::join(&a0, &b0);
    let rt = crate::act::runtime(2);
    rt.block_on(async {
        let ha = crate::act::spawn(a);
        let hb = crate::act::spawn(b);
        if ha.open(ns, OpenOpts::default().sync()).await.is_err() || hb.open(ns, OpenOpts::default().sync()).await.is_err() {
            ctx.harness_error("drivers pass: open failed");
            return;
        }
        let detail = |extra: serde_json::Value| json!({"a0": a0.short(), "b0": b0.short(), "join": join.short(), "initiator": if initiator_is_a {"a"} else {"b"}, "through": "session drivers", "extra": extra});
        let (hi, hacc) = if initiator_is_a { (&ha, &hb) } else { (&hb, &ha) };
        for round in 0..2 {
            let ends = one_session(hi, hacc, ns, Fault::None, usize::MAX, true).await;
            ctx.count("sessions_through_the_drivers", 1);
            if ends.alice != End::Ok || ends.bob != End::Ok {
                ctx.violation(case, "session-error[drivers]", detail(json!({"initiator": format!("{:?}", ends.alice), "acceptor": format!("{:?}", ends.bob), "session": round})));
                break;
            }
            let Some((ci, cacc)) = ends.counts else { break };
            if ci.0 != cacc.1 || cacc.0 != ci.1 {
                ctx.violation(case, "sent-received-counts-not-mirrored", detail(json!({"initiator": ci, "acceptor": cacc, "session": round})));
            }
            let (da, db) = match (crate::act::dump(&ha, ns).await, crate::act::dump(&hb, ns).await) {
                (Ok(x), Ok(y)) => (Model::from_entries(x), Model::from_entries(y)),
                _ => {
                    ctx.harness_error("drivers pass: dump failed");
                    break;
                }
            };
            if da != db {
                ctx.violation(case, "replicas-differ-after-session[drivers]", detail(json!({"a1": da.short(), "b1": db.short(), "session": round})));
                break;
            }
            if da != join {
                ctx.violation(case, "result-is-not-the-join[drivers]", detail(json!({"a1": da.short(), "session": round})));
                break;
            }
            if round == 1 && (ci != (0, 0) || cacc != (0, 0)) {
                ctx.violation(case, "follow-up-session-transferred-entries", detail(json!({"initiator": ci, "acceptor": cacc})));
            }
        }
        let _ = ha.shutdown().await;
        let _ = hb.shutdown().await;
    });
}
