//! C06 — placeholder until the crash monitor is written.
pub fn child_main(_mode: &str, _seed: u64) {}
