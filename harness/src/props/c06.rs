//! C06 — flushed data survives; a crash never exposes a half-applied write.
//!
//! A crash is a copy of the database file taken without committing (what the kernel keeps of a
//! killed process). The reopened image must be one of the states a shadow instance of the real
//! code passed through between the last acknowledged flush and the operation in progress.

use std::{
    collections::{BTreeMap, BTreeSet},
    io::Write,
    path::PathBuf,
    sync::{Arc, Mutex},
};

use iroh_docs::{
    store::{DownloadPolicy, FilterKind, Query, SortBy, SortDirection, Store},
    AuthorId, Capability, ContentStatus, NamespaceId, SignedEntry,
};
use serde_json::json;

use crate::{
    ctx::Ctx,
    gen::{author, content, namespace, ALPHABET},
    model::{Model, E},
    rng::{h64, Rng},
    util::{block_on, dump, heads, Scratch},
};

#[derive(Clone, Debug)]
pub enum Op {
    Insert { doc: usize, author: usize, key: Vec<u8>, content: usize },
    Delete { doc: usize, author: usize, key: Vec<u8> },
    Remote { doc: usize, author: usize, key: Vec<u8>, back: u64, content: Option<usize> },
    ImportAuthor(usize),
    ImportDoc(usize),
    Policy { doc: usize, n: usize },
    Peer { doc: usize, peer: u8 },
    Flush,
    Scan { doc: usize },
    /// list_namespaces + list_authors (shared read snapshot: commits the open write transaction)
    List,
    /// content_hashes (owned snapshot)
    Hashes,
    RemoveDoc(usize),
}

impl Op {
    fn commits(&self) -> bool {
        matches!(self, Op::Flush | Op::Scan { .. } | Op::List | Op::Hashes)
    }
}

pub fn gen_history(rng: &mut Rng, n: usize) -> Vec<Op> {
    let mut ops = vec![Op::ImportDoc(0), Op::ImportAuthor(0), Op::ImportAuthor(1)];
    let key = |rng: &mut Rng| -> Vec<u8> {
        // short keys over a tiny alphabet: parents and children collide all the time
        let l = rng.range(0, 3);
        (0..l).map(|_| ALPHABET[2 + rng.below(2)]).collect()
    };
    // one history in six is about the peer list: the first document starts with a full list, so that
    // every further registration also evicts (added after seeded change agent-C17-7)
    let peer_heavy = rng.chance(1, 6);
    if peer_heavy {
        ops.extend((0..5).map(|i| Op::Peer { doc: 0, peer: 20 + i }));
    }
    for _ in 0..n {
        let doc = if rng.chance(1, 5) { 1 } else { 0 };
        if peer_heavy && rng.chance(1, 3) {
            ops.push(Op::Peer { doc: 0, peer: rng.below(12) as u8 });
            continue;
        }
        ops.push(match rng.below(20) {
            0..=7 => Op::Insert { doc, author: rng.below(2), key: key(rng), content: rng.below(4) },
            8..=10 => Op::Delete { doc, author: rng.below(2), key: key(rng) },
            11 | 12 => Op::Remote { doc, author: rng.below(3), key: key(rng), back: [0u64, 1, 2, 3, 10, 10, 20, 30][rng.below(8)], content: if rng.chance(1, 4) { None } else { Some(rng.below(4)) } },
            13 => Op::ImportDoc(1),
            14 => Op::Policy { doc, n: rng.below(3) },
            15 => Op::Peer { doc, peer: rng.below(7) as u8 },
            16 | 17 => Op::Flush,
            18 => match rng.below(3) {
                0 => Op::Scan { doc },
                1 => Op::List,
                _ => Op::Hashes,
            },
            _ => {
                if rng.chance(1, 3) {
                    Op::RemoveDoc(1)
                } else {
                    Op::ImportAuthor(2)
                }
            }
        });
    }
    ops
}

/// Apply one operation under the clock `t`. The result is deliberately ignored: whatever the
/// store decides, the shadow decides the same.
pub fn apply(store: &mut Store, op: &Op, t: u64) {
    iroh_docs::verif::set_clock(t);
    let nss = [namespace(1), namespace(2)];
    match op {
        Op::Insert { doc, author: a, key, content: c } => {
            let id = nss[*doc].id();
            if let Ok(mut r) = store.open_replica(&id) {
                let (h, l) = content(*c);
                let _ = block_on(r.insert(key, &author(*a as u8), h, l));
            }
            store.close_replica(id);
        }
        Op::Delete { doc, author: a, key } => {
            let id = nss[*doc].id();
            if let Ok(mut r) = store.open_replica(&id) {
                let _ = block_on(r.delete_prefix(key, &author(*a as u8)));
            }
            store.close_replica(id);
        }
        Op::Remote { doc, author: a, key, back, content: c } => {
            let id = nss[*doc].id();
            let rec = match c {
                None => iroh_docs::Record::empty(t - back),
                Some(i) => {
                    let (h, l) = content(*i);
                    iroh_docs::Record::new(h, l, t - back)
                }
            };
            let e = SignedEntry::from_parts(&nss[*doc], &author(*a as u8), key, rec);
            if let Ok(mut r) = store.open_replica(&id) {
                let _ = block_on(r.insert_remote_entry(e, [1u8; 32], ContentStatus::Complete));
            }
            store.close_replica(id);
        }
        Op::ImportAuthor(a) => {
            let _ = store.import_author(author(*a as u8));
        }
        Op::ImportDoc(d) => {
            let _ = store.import_namespace(Capability::Write(nss[*d].clone()));
        }
        Op::Policy { doc, n } => {
            let f: Vec<FilterKind> = (0..*n).map(|i| FilterKind::Prefix(vec![b'a' + i as u8].into())).collect();
            let _ = store.set_download_policy(&nss[*doc].id(), DownloadPolicy::NothingExcept(f));
        }
        Op::Peer { doc, peer } => {
            let _ = store.register_useful_peer(nss[*doc].id(), [*peer + 1; 32]);
        }
        Op::Flush => {
            let _ = store.flush();
        }
        Op::Scan { doc } => {
            if let Ok(it) = store.get_many(nss[*doc].id(), Query::all()) {
                let _ = it.count();
            }
        }
        Op::List => {
            if let Ok(it) = store.list_namespaces() {
                let _ = it.count();
            }
            if let Ok(it) = store.list_authors() {
                let _ = it.count();
            }
        }
        Op::Hashes => {
            if let Ok(it) = store.content_hashes() {
                let _ = it.count();
            }
        }
        Op::RemoveDoc(d) => {
            let _ = store.remove_replica(&nss[*d].id());
        }
    }
    iroh_docs::verif::set_clock(0);
}

#[derive(Clone, Debug, PartialEq, Eq)]
pub struct Obs {
    docs: BTreeMap<NamespaceId, Vec<Vec<u8>>>,
    kinds: BTreeMap<NamespaceId, String>,
    authors: BTreeSet<[u8; 32]>,
    policies: BTreeMap<NamespaceId, String>,
    peers: BTreeMap<NamespaceId, Vec<[u8; 32]>>,
    /// per-author heads including the key they name
    heads: BTreeMap<NamespaceId, BTreeMap<[u8; 32], (u64, Vec<u8>)>>,
}

impl Obs {
    fn brief(&self) -> serde_json::Value {
        json!({
            "docs": self.docs.iter().map(|(k, v)| (hex::encode(&k.as_bytes()[..2]), v.iter().map(|b| E::of(&postcard::from_bytes::<SignedEntry>(b).unwrap()).short()).collect::<Vec<_>>())).collect::<BTreeMap<_, _>>(),
            "namespaces": self.kinds.len(), "authors": self.authors.len(),
        })
    }
}

pub fn observe(store: &mut Store) -> anyhow::Result<Obs> {
    let ids = [namespace(1).id(), namespace(2).id()];
    let mut o = Obs { docs: BTreeMap::new(), kinds: BTreeMap::new(), authors: BTreeSet::new(), policies: BTreeMap::new(), peers: BTreeMap::new(), heads: BTreeMap::new() };
    for id in ids {
        o.docs.insert(id, dump(store, id)?.values().map(|e| postcard::to_stdvec(e).unwrap()).collect());
        o.policies.insert(id, format!("{:?}", store.get_download_policy(&id)?));
        o.peers.insert(id, store.get_sync_peers(&id)?.map(|p| p.collect()).unwrap_or_default());
        o.heads.insert(id, heads(store, id)?);
    }
    for r in store.list_namespaces()? {
        let (id, k) = r?;
        o.kinds.insert(id, format!("{k:?}"));
    }
    for a in store.list_authors()? {
        o.authors.insert(a?.id().to_bytes());
    }
    Ok(o)
}

/// States of the shadow (in-memory instance of the real code) after each operation.
pub fn shadow_states(ops: &[Op], base: u64) -> Vec<Obs> {
    let mut s = Store::memory();
    let mut out = vec![observe(&mut s).expect("observe shadow")];
    for (i, op) in ops.iter().enumerate() {
        apply(&mut s, op, base + 10 * (i as u64 + 1));
        out.push(observe(&mut s).expect("observe shadow"));
    }
    out
}

/// Internal agreement of a reopened store.
fn coherent(store: &mut Store, o: &Obs) -> Result<(), String> {
    for (id, entries) in o.docs.iter() {
        let dm = dump(store, *id).map_err(|e| format!("{e:?}"))?;
        let _ = entries;
        // lookups
        for ((a, k), e) in dm.iter() {
            let got = store.get_exact(*id, AuthorId::from(a), k, true).map_err(|e| format!("{e:?}"))?;
            if got.as_ref() != Some(e) {
                return Err(format!("lookup-disagrees-with-scan: key {}", hex::encode(k)));
            }
        }
        for probe in [&b"zz"[..], &b"a\xff"[..], &b""[..]] {
            for a in 0..3u8 {
                let aid = author(a).id();
                let got = store.get_exact(*id, aid, probe, true).map_err(|e| format!("{e:?}"))?;
                if got.as_ref() != dm.get(&(aid.to_bytes(), probe.to_vec())) {
                    return Err("lookup-disagrees-with-scan: absent id".into());
                }
            }
        }
        // the two query paths
        let by_key: Vec<SignedEntry> = store
            .get_many(*id, Query::all().include_empty().sort_by(SortBy::KeyAuthor, SortDirection::Asc))
            .map_err(|e| format!("{e:?}"))?
            .collect::<anyhow::Result<_>>()
            .map_err(|e| format!("{e:?}"))?;
        let s1: BTreeSet<Vec<u8>> = by_key.iter().map(|e| postcard::to_stdvec(e).unwrap()).collect();
        let s2: BTreeSet<Vec<u8>> = dm.values().map(|e| postcard::to_stdvec(e).unwrap()).collect();
        if s1 != s2 || by_key.len() != dm.len() {
            return Err("query-paths-disagree".into());
        }
        // heads
        let hd = heads(store, *id).map_err(|e| format!("{e:?}"))?;
        let got: BTreeMap<[u8; 32], u64> = hd.into_iter().map(|(a, (t, _))| (a, t)).collect();
        if got != (Model { map: dm }).heads() {
            return Err("heads-disagree-with-entries".into());
        }
    }
    Ok(())
}

struct Image {
    path: PathBuf,
    op_in_progress: Option<usize>, // 1-based index of the op during which it was taken
    completed: usize,              // number of completed ops
    last_commit_op: usize,         // F
    access: Option<usize>,
}

/// Why is `img` not an allowed state? (signature classifier)
fn classify(img: &Obs, states: &[Obs], lo: usize, hi: usize, ops: &[Op]) -> String {
    let d0 = namespace(1).id();
    let set = |o: &Obs| -> BTreeSet<Vec<u8>> { o.docs.values().flatten().cloned().collect() };
    let _ = d0;
    let got = set(img);
    // split of the operation in progress?
    if hi >= 1 && hi <= ops.len() {
        let before = set(&states[hi - 1]);
        let after = set(&states[hi]);
        let written: BTreeSet<_> = after.difference(&before).cloned().collect();
        let pruned: BTreeSet<_> = before.difference(&after).cloned().collect();
        let kind = match &ops[hi - 1] {
            Op::Insert { .. } => "insert",
            Op::Delete { .. } => "delete",
            Op::Remote { .. } => "remote-insert",
            Op::RemoveDoc(_) => "remove-document",
            _ => "other",
        };
        if !pruned.is_empty() && !written.is_empty() {
            let without_pruned: BTreeSet<_> = before.difference(&pruned).cloned().collect();
            if got == without_pruned {
                return format!("autocommit-split:op={kind}:between=prune|write");
            }
            let with_both: BTreeSet<_> = before.union(&written).cloned().collect();
            if got == with_both {
                return format!("autocommit-split:op={kind}:between=write|prune");
            }
        }
        if got != before && got != after && got.is_subset(&before.union(&after).cloned().collect()) {
            return format!("half-applied:op={kind}");
        }
    }
    // durable entry missing without durable superseder
    let durable = set(&states[lo]);
    if !durable.is_subset(&got) {
        let later: BTreeSet<Vec<u8>> = states[lo..=hi.min(states.len() - 1)].iter().flat_map(set).collect();
        if durable.difference(&got).any(|e| later.contains(e)) {
            return "lost-durable-entry".into();
        }
    }
    if img.docs == states[hi.min(states.len() - 1)].docs || states[lo..=hi.min(states.len() - 1)].iter().any(|s| s.docs == img.docs) {
        return "entries-ok-but-other-tables-differ".into();
    }
    "not-a-passed-through-state".into()
}

fn check_image(ctx: &mut Ctx, case: u64, img: &Image, states: &[Obs], ops: &[Op], how: &str) -> bool {
    ctx.count(&format!("images[{how}]"), 1);
    let lo = img.last_commit_op;
    let hi = img.op_in_progress.unwrap_or(img.completed);
    let detail = |extra: serde_json::Value| {
        json!({"how": how, "during_op": img.op_in_progress.map(|i| format!("{:?}", ops[i - 1])), "access": img.access, "completed_ops": img.completed, "last_commit_at_op": lo,
            "ops": ops.iter().enumerate().map(|(i, o)| format!("{}: {:?}", i + 1, o)).collect::<Vec<_>>(), "extra": extra})
    };
    let mut store = match Store::persistent(&img.path) {
        Ok(s) => s,
        Err(e) => {
            ctx.violation(case, "reopen-failed", detail(json!(format!("{e:?}"))));
            return false;
        }
    };
    let obs = match observe(&mut store) {
        Ok(o) => o,
        Err(e) => {
            ctx.violation(case, "reopen-failed", detail(json!(format!("observe: {e:?}"))));
            return false;
        }
    };
    let matched = (lo..=hi).find(|j| states[*j] == obs);
    match matched {
        Some(j) => {
            ctx.distinct("image_positions", ((hi - j) as u64) << 8 | (hi - lo).min(255) as u64);
            if j < hi {
                ctx.count("images_showing_an_older_state", 1);
            }
        }
        None => {
            let sig = classify(&obs, states, lo, hi, ops);
            ctx.violation(case, &sig, detail(json!({"image": obs.brief(), "allowed_first": states[lo].brief(), "allowed_last": states[hi].brief()})));
            return false;
        }
    }
    if let Err(why) = coherent(&mut store, &obs) {
        ctx.violation(case, &format!("reopened-store-incoherent:{}", why.split(':').next().unwrap_or("")), detail(json!(why)));
        return false;
    }
    drop(store);
    let _ = std::fs::remove_file(&img.path);
    true
}

pub fn run(ctx: &mut Ctx) {
    let mode = ctx.mode.clone().unwrap_or_else(|| "images".into());
    if mode == "kill" {
        return run_kill(ctx);
    }
    if mode == "upgrade" {
        return run_upgrade(ctx);
    }
    if mode == "node" {
        return run_node(ctx);
    }
    if mode == "actor" {
        return run_actor(ctx);
    }
    let scratch = Scratch::new();
    for case in ctx.cases(150, 12_000) {
        let mut rng = ctx.rng(case);
        let n = rng.range(6, 25);
        let ops = gen_history(&mut rng, n);
        let base = crate::gen::t0();
        let states = shadow_states(&ops, base);
        ctx.eval();
        let prunes = (1..states.len()).filter(|i| {
            let b: BTreeSet<_> = states[i - 1].docs.values().flatten().collect();
            let a: BTreeSet<_> = states[*i].docs.values().flatten().collect();
            b.difference(&a).next().is_some() && a.difference(&b).next().is_some()
        }).count();
        if prunes > 0 {
            ctx.nontrivial(h64(format!("{ops:?}").as_bytes()));
            ctx.count("operations_that_prune_and_write", prunes as u64);
        }
        if ctx.want_sample() {
            ctx.sample(json!({"case": case, "ops": ops.iter().map(|o| format!("{o:?}")).collect::<Vec<_>>()}));
        }
        // ---- 1. an image after every call
        {
            let path = scratch.path("live");
            let mut store = Store::persistent(&path).expect("create");
            let mut last_commit = 0;
            for (i, op) in ops.iter().enumerate() {
                apply(&mut store, op, base + 10 * (i as u64 + 1));
                if op.commits() {
                    last_commit = i + 1;
                }
                let ipath = scratch.path("img");
                std::fs::copy(&path, &ipath).expect("copy image");
                let img = Image { path: ipath, op_in_progress: None, completed: i + 1, last_commit_op: last_commit, access: None };
                if !check_image(ctx, case, &img, &states, &ops, "after-call") {
                    break;
                }
            }
            drop(store);
            let _ = std::fs::remove_file(&path);
        }
        // ---- 2. the age-based commit at every internal access point of every operation
        for placement in ["every-access", "single-access"] {
            let path = scratch.path("aged");
            let mut store = Store::persistent(&path).expect("create");
            let images: Arc<Mutex<Vec<(PathBuf, usize)>>> = Default::default();
            let cur_op: Arc<Mutex<usize>> = Arc::new(Mutex::new(0));
            let single_target: Option<(usize, usize)> = if placement == "single-access" { Some((rng.range(1, ops.len()), rng.below(5))) } else { None };
            let first_access = Arc::new(Mutex::new(0usize));
            {
                let images = images.clone();
                let db = path.clone();
                let dir = scratch.dir.path().to_path_buf();
                let cur_op = cur_op.clone();
                let first_access = first_access.clone();
                let counter = Arc::new(Mutex::new(0usize));
                iroh_docs::verif::set_access_callback(Some(Box::new(move |n| {
                    let op = *cur_op.lock().unwrap();
                    if op == 0 {
                        return;
                    }
                    let within = n - *first_access.lock().unwrap();
                    let take = match single_target {
                        None => true,
                        Some((o, p)) => o == op && p == within,
                    };
                    if take {
                        let mut c = counter.lock().unwrap();
                        *c += 1;
                        let ipath = dir.join(format!("acc-{}-{}.redb", n, *c));
                        if std::fs::copy(&db, &ipath).is_ok() {
                            images.lock().unwrap().push((ipath, within));
                        }
                    }
                    match single_target {
                        None => iroh_docs::verif::age_transaction_at(n + 1),
                        Some((o, p)) => {
                            if o == op && within + 1 == p {
                                iroh_docs::verif::age_transaction_at(n + 1)
                            }
                        }
                    }
                })));
            }
            let mut last_commit = 0;
            let mut ok = true;
            for (i, op) in ops.iter().enumerate() {
                *cur_op.lock().unwrap() = i + 1;
                let start = iroh_docs::verif::store_accesses();
                *first_access.lock().unwrap() = start;
                match single_target {
                    None => iroh_docs::verif::age_transaction_at(start),
                    Some((o, 0)) if o == i + 1 => iroh_docs::verif::age_transaction_at(start),
                    _ => {}
                }
                apply(&mut store, op, base + 10 * (i as u64 + 1));
                *cur_op.lock().unwrap() = 0;
                iroh_docs::verif::age_transaction_at(usize::MAX);
                let taken: Vec<(PathBuf, usize)> = std::mem::take(&mut *images.lock().unwrap());
                ctx.distinct("accesses_per_operation", (iroh_docs::verif::store_accesses() - start) as u64);
                for (ipath, within) in taken {
                    let img = Image { path: ipath, op_in_progress: Some(i + 1), completed: i, last_commit_op: last_commit, access: Some(within) };
                    if ok && !check_image(ctx, case, &img, &states, &ops, placement) {
                        ok = false;
                    } else {
                        let _ = std::fs::remove_file(&img.path);
                    }
                    // an automatic commit happened at this access: everything before it is durable
                }
                if placement == "every-access" || op.commits() {
                    // with a commit at every access, all completed operations are durable
                    last_commit = if op.commits() { i + 1 } else { i };
                }
                if !ok {
                    break;
                }
            }
            iroh_docs::verif::set_access_callback(None);
            iroh_docs::verif::age_transaction_at(usize::MAX);
            drop(store);
            let _ = std::fs::remove_file(&path);
        }
    }
}

// ---------------------------------------------------------------------------------------------
// real process kills

fn kill_history(seed: u64) -> Vec<Op> {
    let mut rng = Rng::from_parts(&[seed, 0xC06]);
    gen_history(&mut rng, 400)
}

/// Child process: run the history on the file, logging progress with unbuffered writes.
pub fn child_main(mode: &str, seed: u64) {
    // mode = "<db path>|<log path>|<base>"
    let parts: Vec<&str> = mode.split('|').collect();
    let (db, logp, base) = (parts[0], parts[1], parts[2].parse::<u64>().unwrap());
    let ops = kill_history(seed);
    let mut log = std::fs::OpenOptions::new().create(true).append(true).open(logp).unwrap();
    let mut store = Store::persistent(db).unwrap();
    let _ = log.write_all(b"ready\n");
    for (i, op) in ops.iter().enumerate() {
        let _ = log.write_all(format!("s{}\n", i + 1).as_bytes());
        apply(&mut store, op, base + 10 * (i as u64 + 1));
        let _ = log.write_all(format!("{}{}\n", if op.commits() { "f" } else { "d" }, i + 1).as_bytes());
        if i % 16 == 0 {
            std::thread::sleep(std::time::Duration::from_micros(300));
        }
    }
    let _ = log.write_all(b"end\n");
    // stay alive until killed, without a clean shutdown
    std::thread::sleep(std::time::Duration::from_secs(30));
    std::process::abort();
}

fn run_kill(ctx: &mut Ctx) {
    let scratch = Scratch::new();
    let exe = std::env::current_exe().unwrap();
    for case in ctx.cases(12, 400) {
        let mut rng = ctx.rng(case);
        let seed = rng.next_u64() >> 1;
        let base = crate::gen::t0();
        let ops = kill_history(seed);
        let states = shadow_states(&ops, base);
        let db = scratch.path("kill");
        let logp = scratch.dir.path().join(format!("kill-{case}.log"));
        let mut child = std::process::Command::new(&exe)
            .args(["C06-child", "--seed", &seed.to_string(), "--mode", &format!("{}|{}|{}", db.display(), logp.display(), base)])
            .stdout(std::process::Stdio::null())
            .stderr(std::process::Stdio::null())
            .spawn()
            .expect("spawn child");
        // wait until the child started working, then kill it at a random instant
        let t0 = std::time::Instant::now();
        while t0.elapsed().as_secs() < 20 {
            if std::fs::read_to_string(&logp).map(|s| s.contains("ready")).unwrap_or(false) {
                break;
            }
            std::thread::sleep(std::time::Duration::from_millis(2));
        }
        std::thread::sleep(std::time::Duration::from_micros(rng.below(60_000) as u64));
        unsafe {
            libc::kill(child.id() as i32, libc::SIGKILL);
        }
        let _ = child.wait();
        ctx.eval();
        let log = std::fs::read_to_string(&logp).unwrap_or_default();
        let mut started = 0;
        let mut flushed = 0;
        let mut done = 0;
        for l in log.lines() {
            if let Some(n) = l.strip_prefix('s') {
                started = n.parse().unwrap_or(started);
            } else if let Some(n) = l.strip_prefix('f') {
                flushed = n.parse().unwrap_or(flushed);
                done = flushed.max(done);
            } else if let Some(n) = l.strip_prefix('d') {
                done = n.parse().unwrap_or(done);
            }
        }
        if !log.contains("ready") {
            ctx.harness_error("kill child never became ready");
            continue;
        }
        ctx.count("processes_killed", 1);
        if started > done {
            ctx.count("killed_inside_an_operation", 1);
        }
        ctx.distinct("kill_points", started as u64);
        if started > 0 && !log.contains("end") {
            ctx.nontrivial(h64(format!("{seed}:{started}").as_bytes()));
        }
        let img = Image { path: db.clone(), op_in_progress: if started > done { Some(started) } else { None }, completed: done, last_commit_op: flushed, access: None };
        check_image(ctx, case, &img, &states, &ops, "sigkill");
        if ctx.want_sample() {
            ctx.sample(json!({"case": case, "mode": "kill", "ops_started": started, "ops_done": done, "last_flush_at": flushed}));
        }
        let _ = std::fs::remove_file(&db);
        let _ = std::fs::remove_file(&logp);
    }
}

// ---- mode `upgrade`: the process dies while the first open converts a file of an earlier on-disk format

/// Child process of the `upgrade` mode: open the store file (which converts it) and exit.
pub fn upgrade_child_main(path: &str) {
    match Store::persistent(path) {
        Ok(s) => {
            drop(s);
            std::process::exit(0)
        }
        Err(_) => std::process::exit(3),
    }
}

const UPGRADE_SYSCALLS: &str = "openat,rename,renameat,renameat2,link,linkat,unlink,unlinkat,write,pwrite64,pwritev,fsync,fdatasync,ftruncate,fallocate";

fn strace_run(exe: &std::path::Path, db: &std::path::Path, log: &std::path::Path, kill_at: Option<(String, usize)>) -> Option<std::process::ExitStatus> {
    let mut c = std::process::Command::new("strace");
    c.args(["-f", "-qq", "-e", &format!("trace={UPGRADE_SYSCALLS}"), "-o"]).arg(log);
    // strace counts invocations per system call, so a kill point is (call name, its n-th invocation)
    if let Some((name, nth)) = kill_at {
        c.args(["-e", &format!("inject={name}:signal=KILL:when={nth}")]);
    }
    c.arg(exe).args(["C06-upgrade-child", "--mode"]).arg(db);
    c.stdout(std::process::Stdio::null()).stderr(std::process::Stdio::null());
    c.status().ok()
}

/// The traced calls of a strace log in order: (call name, how many calls of that name up to and
/// including this one, whether the line names `needle`).
fn strace_calls(log: &std::path::Path, needle: &str) -> Vec<(String, usize, bool)> {
    let text = std::fs::read_to_string(log).unwrap_or_default();
    let mut per: BTreeMap<String, usize> = BTreeMap::new();
    let mut out = vec![];
    for l in text.lines() {
        let body = l.split_once(' ').map(|x| x.1.trim_start()).unwrap_or(l);
        if body.starts_with("+++") || body.starts_with("---") || body.starts_with("<...") {
            continue;
        }
        let Some((name, _)) = body.split_once('(') else { continue };
        let n = per.entry(name.to_string()).or_insert(0);
        *n += 1;
        out.push((name.to_string(), *n, body.contains(needle)));
    }
    out
}

/// A store is written by the real code, copied row by row into a file of the on-disk format of
/// iroh-docs 0.94..=0.98, and opened by a child process under `strace`, which kills the child on
/// entry to its k-th file-system call (open, rename, link, unlink, write, sync, truncate) — for every k
/// the open makes (all of them when there are few, a seeded sample otherwise, the renames and links
/// always). After every kill the file is opened again in this process: it must open and show exactly
/// what the store held when it was closed — converting a file is not a write, so that is the only
/// state the store ever passed through.
fn run_upgrade(ctx: &mut Ctx) {
    let scratch = Scratch::new();
    let exe = std::env::current_exe().unwrap();
    let probe = std::process::Command::new("strace").arg("-V").stdout(std::process::Stdio::null()).stderr(std::process::Stdio::null()).status();
    if !probe.map(|s| s.success()).unwrap_or(false) {
        ctx.harness_error("strace is not available: the upgrade mode cannot place its kills");
        return;
    }
    for case in ctx.cases(14, 600) {
        let mut rng = ctx.rng(case);
        let n = rng.range(6, 25);
        let ops = gen_history(&mut rng, n);
        let base = crate::gen::t0();
        let cur = scratch.path("upg-cur");
        let reference = {
            let mut store = Store::persistent(&cur).expect("create");
            for (i, op) in ops.iter().enumerate() {
                apply(&mut store, op, base + 10 * (i as u64 + 1));
            }
            store.flush().expect("flush");
            observe(&mut store).expect("observe")
        };
        let shape = crate::oldfile::Shape { without_heads: rng.chance(1, 3), without_by_key: rng.chance(1, 3) };
        let old = scratch.path("upg-old");
        match crate::oldfile::write_old_format(&cur, &old, shape) {
            Ok(c) => ctx.count("records_in_old_format_files", c.records as u64),
            Err(e) => {
                ctx.harness_error(format!("writing an old-format file failed: {e:?}"));
                return;
            }
        }
        let _ = std::fs::remove_file(&cur);
        // the head keys of a rebuilt head table may name another entry with the same timestamp
        let norm = |mut o: Obs| {
            if shape.without_heads {
                for h in o.heads.values_mut() {
                    for v in h.values_mut() {
                        v.1.clear();
                    }
                }
            }
            o
        };
        let reference = norm(reference);
        let run_dir = |k: usize| scratch.dir.path().join(format!("upg-{case}-{k}"));
        // dry run: the calls an uninterrupted conversion makes
        let dir0 = run_dir(0);
        std::fs::create_dir_all(&dir0).unwrap();
        let db0 = dir0.join("docs.redb");
        std::fs::copy(&old, &db0).unwrap();
        let log0 = dir0.join("strace.log");
        let st = strace_run(&exe, &db0, &log0, None);
        if !st.map(|s| s.success()).unwrap_or(false) {
            ctx.harness_error(format!("the uninterrupted conversion under strace did not exit cleanly: {st:?}"));
            return;
        }
        let calls = strace_calls(&log0, "docs.redb");
        let total = calls.len();
        let first = calls.iter().position(|c| c.2).map(|i| i + 1).unwrap_or(0);
        if total == 0 || first == 0 {
            ctx.harness_error("strace recorded no file-system calls of the conversion");
            return;
        }
        let special: Vec<usize> = calls
            .iter()
            .enumerate()
            .filter(|(_, c)| c.0.starts_with("rename") || c.0.starts_with("link") || c.0.starts_with("unlink"))
            .flat_map(|(i, _)| [i + 1, i + 2])
            .collect();
        if std::env::var("VCHECK_TRACE").is_ok() {
            eprintln!("total {total} first {first} special {special:?}");
            for l in std::fs::read_to_string(&log0).unwrap_or_default().lines().filter(|l| l.contains("rename") || l.contains("link") || l.contains("openat")) {
                eprintln!("  {l}");
            }
        }
        ctx.eval();
        ctx.count("file_system_calls_of_uninterrupted_conversions", (total - first + 1) as u64);
        let check = |ctx: &mut Ctx, db: &std::path::Path, k: usize| -> bool {
            match Store::persistent(db) {
                Err(e) => {
                    ctx.violation(case, "reopen-failed-after-kill-during-format-conversion", json!({"killed_at_call": k, "of": total, "err": format!("{e:?}"), "shape": format!("{shape:?}")}));
                    false
                }
                Ok(mut s) => match observe(&mut s) {
                    Err(e) => {
                        ctx.violation(case, "reopened-store-unreadable-after-kill-during-format-conversion", json!({"killed_at_call": k, "err": format!("{e:?}")}));
                        false
                    }
                    Ok(o) => {
                        let o = norm(o);
                        if o != reference {
                            let lost = reference.docs.values().map(|v| v.len()).sum::<usize>() as i64 - o.docs.values().map(|v| v.len()).sum::<usize>() as i64;
                            let sig = if o.kinds.is_empty() && !reference.kinds.is_empty() { "store-empty-after-kill-during-format-conversion" } else { "store-differs-after-kill-during-format-conversion" };
                            ctx.violation(case, sig, json!({"killed_at_call": k, "of": total, "entries_missing": lost, "shape": format!("{shape:?}"),
                                "documents_before": reference.kinds.len(), "documents_after": o.kinds.len(), "peers_before": reference.peers.values().map(|v| v.len()).sum::<usize>(), "peers_after": o.peers.values().map(|v| v.len()).sum::<usize>()}));
                            false
                        } else {
                            coherent(&mut s, &o).map_err(|e| ctx.violation(case, "incoherent-after-kill-during-format-conversion", json!({"killed_at_call": k, "why": e}))).is_ok()
                        }
                    }
                },
            }
        };
        // the uninterrupted conversion itself
        if !check(ctx, &db0, 0) {
            return;
        }
        if std::env::var("VCHECK_KEEP").is_err() {
            let _ = std::fs::remove_dir_all(&dir0);
        }
        let mut points: BTreeSet<usize> = special.into_iter().filter(|k| *k >= first && *k <= total).collect();
        let budget = if ctx.is_quick() { 32 } else { 400 };
        if total - first + 1 <= budget {
            points.extend(first..=total);
        } else {
            while points.len() < budget {
                points.insert(first + rng.below(total - first + 1));
            }
        }
        for k in points {
            if ctx.out_of_time() {
                break;
            }
            let dir = run_dir(k);
            std::fs::create_dir_all(&dir).unwrap();
            let db = dir.join("docs.redb");
            std::fs::copy(&old, &db).unwrap();
            let (name, nth, _) = calls[k - 1].clone();
            let st = strace_run(&exe, &db, &dir.join("strace.log"), Some((name.clone(), nth)));
            ctx.distinct("calls_killed_at", h64(name.as_bytes()));
            use std::os::unix::process::ExitStatusExt;
            match st {
                Some(s) if s.signal() == Some(libc::SIGKILL) || s.code() == Some(137) => {
                    ctx.count("children_killed_during_the_conversion", 1);
                }
                Some(s) if s.success() => {
                    ctx.count("kill_point_not_reached", 1);
                }
                other => {
                    ctx.harness_error(format!("strace run with a kill at call {k} ended unexpectedly: {other:?}"));
                    return;
                }
            }
            ctx.distinct("kill_points", (k - first) as u64);
            ctx.nontrivial(h64(format!("{case}:{k}:{}", ctx.seed).as_bytes()));
            let ok = check(ctx, &db, k);
            let _ = std::fs::remove_dir_all(&dir);
            if !ok {
                return;
            }
        }
        if ctx.want_sample() {
            ctx.sample(json!({"case": case, "mode": "upgrade", "history_ops": ops.len(), "old_file_shape": format!("{shape:?}"), "file_system_calls": total - first + 1}));
        }
        let _ = std::fs::remove_file(&old);
    }
}

// ---- mode `node`: the process dies while a node starts or changes its default author ------------
//
// The persistent state of a docs node is two artefacts in one directory: the store file and the
// `default-author` file, a reference into the store. The child does what `Engine::spawn` does on a
// persistent node — open the store, start the store actor, `DefaultAuthor::load` — and then follows a
// script (create an author and make it the default, with or without a flush in between; flush;
// restart). strace kills it on entry to the n-th call of each file-system call name (counted per
// thread, as strace counts). Progress is acknowledged by creating directories (`mkdir` is not a
// traced call, so acknowledging is never a kill point and survives the kill).

fn node_author(seed: u64, i: u64) -> iroh_docs::Author {
    let mut b = [0u8; 32];
    b[..8].copy_from_slice(&seed.to_le_bytes());
    b[8..16].copy_from_slice(&i.to_le_bytes());
    b[31] = 0xA7;
    iroh_docs::Author::from_bytes(&b)
}

/// Child process of the `node` mode. `arg` = "<dir>|<script>".
pub fn node_child_main(arg: &str, seed: u64) {
    use iroh_docs::engine::{DefaultAuthor, DefaultAuthorStorage};
    let (dir, script) = arg.split_once('|').expect("dir|script");
    let dir = PathBuf::from(dir);
    let acks = dir.join("acks");
    let _ = std::fs::create_dir_all(&acks);
    let mut seq = 0u32;
    let mut ack = |kind: &str, id: &AuthorId| {
        seq += 1;
        let _ = std::fs::create_dir(acks.join(format!("{seq:04}-{kind}-{}", hex::encode(id.as_bytes()))));
    };
    let rt = crate::act::runtime(1);
    let code = rt.block_on(async {
        let open = || async {
            let store = Store::persistent(dir.join("docs.redb"))?;
            // the database file exists as a database from here on
            let _ = std::fs::create_dir(dir.join("store-opened"));
            let sync = crate::act::spawn(store);
            let da = DefaultAuthor::load(DefaultAuthorStorage::Persistent(dir.join("default-author")), &sync).await?;
            anyhow::Ok((sync, da))
        };
        let (mut sync, mut da) = match open().await {
            Ok(x) => x,
            Err(_) => return 3,
        };
        ack("a", &da.get());
        for (i, c) in script.chars().enumerate() {
            match c {
                'n' | 'N' => {
                    let a = node_author(seed, i as u64);
                    let id = a.id();
                    if sync.import_author(a).await.is_err() {
                        return 4;
                    }
                    if c == 'N' && sync.flush_store().await.is_err() {
                        return 4;
                    }
                    ack("b", &id);
                    if da.set(id, &sync).await.is_err() {
                        return 5;
                    }
                    ack("a", &id);
                }
                'f' => {
                    if sync.flush_store().await.is_err() {
                        return 4;
                    }
                }
                'r' => {
                    drop(da);
                    if sync.shutdown().await.is_err() {
                        return 6;
                    }
                    match open().await {
                        Ok(x) => (sync, da) = x,
                        Err(_) => return 7,
                    }
                    ack("a", &da.get());
                }
                _ => {}
            }
        }
        // no orderly shutdown: the process simply ends
        0
    });
    std::process::exit(code);
}

fn strace_node(exe: &std::path::Path, arg: &str, seed: u64, log: &std::path::Path, kill_at: Option<(String, usize)>) -> Option<std::process::ExitStatus> {
    let mut c = std::process::Command::new("strace");
    c.args(["-f", "-qq", "-e", &format!("trace={UPGRADE_SYSCALLS}"), "-o"]).arg(log);
    if let Some((name, nth)) = kill_at {
        c.args(["-e", &format!("inject={name}:signal=KILL:when={nth}")]);
    }
    c.arg(exe).args(["C06-node-child", "--seed", &seed.to_string(), "--mode", arg]);
    c.stdout(std::process::Stdio::null()).stderr(std::process::Stdio::null());
    c.status().ok()
}

/// Per call name, the largest number of invocations any single thread made (strace's `when=` counts
/// per traced thread): `inject=<name>:when=n` for n up to that number kills the process at the moment
/// the first of its threads enters its n-th call of that name.
fn strace_calls_per_thread(log: &std::path::Path) -> BTreeMap<String, usize> {
    let text = std::fs::read_to_string(log).unwrap_or_default();
    let mut per: BTreeMap<(String, String), usize> = BTreeMap::new();
    for l in text.lines() {
        let Some((pid, body)) = l.split_once(' ') else { continue };
        let body = body.trim_start();
        if body.starts_with("+++") || body.starts_with("---") || body.starts_with("<...") {
            continue;
        }
        let Some((name, _)) = body.split_once('(') else { continue };
        *per.entry((pid.to_string(), name.to_string())).or_insert(0) += 1;
    }
    let mut out: BTreeMap<String, usize> = BTreeMap::new();
    for ((_, name), n) in per {
        let e = out.entry(name).or_insert(0);
        *e = (*e).max(n);
    }
    out
}

fn node_script(rng: &mut Rng) -> String {
    let mut s = String::new();
    for _ in 0..rng.range(1, 5) {
        s.push(*rng.pick(&['n', 'n', 'N', 'f', 'r']));
    }
    if !s.contains('n') && !s.contains('N') {
        s.push('n');
    }
    s
}

fn run_node(ctx: &mut Ctx) {
    use iroh_docs::engine::{DefaultAuthor, DefaultAuthorStorage};
    let scratch = Scratch::new();
    let exe = std::env::current_exe().unwrap();
    let probe = std::process::Command::new("strace").arg("-V").stdout(std::process::Stdio::null()).stderr(std::process::Stdio::null()).status();
    if !probe.map(|s| s.success()).unwrap_or(false) {
        ctx.harness_error("strace is not available: the node mode cannot place its kills");
        return;
    }
    // what the acknowledgements say: (last acknowledged default, ids whose `set` had begun after it)
    let read_acks = |dir: &std::path::Path| -> (Option<String>, Vec<String>) {
        let mut names: Vec<String> = std::fs::read_dir(dir.join("acks")).map(|d| d.filter_map(|e| e.ok()).map(|e| e.file_name().to_string_lossy().into_owned()).collect()).unwrap_or_default();
        names.sort();
        let mut last = None;
        let mut begun = vec![];
        for n in names {
            let mut p = n.splitn(3, '-');
            let (_, kind, id) = (p.next(), p.next().unwrap_or(""), p.next().unwrap_or("").to_string());
            if kind == "a" {
                last = Some(id);
                begun.clear();
            } else {
                begun.push(id);
            }
        }
        (last, begun)
    };
    // start the node again on what the killed process left behind, twice
    let restart = |dir: &std::path::Path| -> Result<(String, bool), String> {
        let rt = crate::act::runtime(1);
        rt.block_on(async {
            let mut ids = vec![];
            let mut in_store = true;
            for _ in 0..2 {
                let store = Store::persistent(dir.join("docs.redb")).map_err(|e| format!("store does not open: {e:?}"))?;
                let sync = crate::act::spawn(store);
                let r = DefaultAuthor::load(DefaultAuthorStorage::Persistent(dir.join("default-author")), &sync).await;
                let res = match r {
                    Ok(da) => {
                        let id = da.get();
                        in_store &= matches!(sync.export_author(id).await, Ok(Some(_)));
                        Ok(hex::encode(id.as_bytes()))
                    }
                    Err(e) => Err(format!("{e:#}")),
                };
                let _ = sync.shutdown().await;
                ids.push(res?);
            }
            if ids[0] != ids[1] {
                return Err(format!("default author changes from one start to the next: {} then {}", ids[0], ids[1]));
            }
            Ok((ids.pop().unwrap(), in_store))
        })
    };
    for case in ctx.cases(6, 400) {
        let mut rng = ctx.rng(case);
        let script = node_script(&mut rng);
        let seed = rng.next_u64() >> 1;
        let run_dir = |k: &str| scratch.dir.path().join(format!("node-{case}-{k}"));
        let dir0 = run_dir("dry");
        std::fs::create_dir_all(&dir0).unwrap();
        let log0 = scratch.dir.path().join(format!("node-{case}.strace"));
        let st = strace_node(&exe, &format!("{}|{script}", dir0.display()), seed, &log0, None);
        if !st.map(|s| s.success()).unwrap_or(false) {
            ctx.harness_error(format!("the uninterrupted node start under strace did not exit cleanly: {st:?} (script {script})"));
            return;
        }
        let per = strace_calls_per_thread(&log0);
        let total: usize = per.values().sum();
        if total == 0 || !per.contains_key("openat") {
            ctx.harness_error(format!("strace recorded no file-system calls of the node start: {per:?}"));
            return;
        }
        ctx.eval();
        ctx.count("kill_points_of_uninterrupted_node_starts", total as u64);
        // the uninterrupted run itself: everything it acknowledged must be there
        let judge = |ctx: &mut Ctx, dir: &std::path::Path, at: &str| -> bool {
            let (last, begun) = read_acks(dir);
            match restart(dir) {
                Err(e) if e.starts_with("store does not open") && !dir.join("store-opened").exists() => {
                    // The process died while redb was creating a brand-new database file; redb refuses
                    // what is left ("invalid data"). No store call had returned yet, nothing was ever
                    // acknowledged, and the creation of the file is redb's own (the statement trusts
                    // it): outside the quantifier, counted and not judged (DESIGN, C06).
                    ctx.count("killed_while_redb_created_the_file_not_judged", 1);
                    true
                }
                Err(e) => {
                    let sig = if e.contains("missing from the docs store") {
                        "node-does-not-start-after-kill:default-author-not-in-store"
                    } else if e.contains("parse the default author") {
                        "node-does-not-start-after-kill:default-author-file-unreadable"
                    } else if e.contains("changes from one start") {
                        "default-author-changes-between-starts"
                    } else {
                        "node-does-not-start-after-kill"
                    };
                    ctx.violation(case, sig, json!({"script": script, "killed_at": at, "error": e, "acknowledged_default": last, "set_in_progress": begun}));
                    false
                }
                Ok((id, in_store)) => {
                    if !in_store {
                        ctx.violation(case, "default-author-not-in-store", json!({"script": script, "killed_at": at, "default": id}));
                        return false;
                    }
                    if let Some(l) = last {
                        if id != l && !begun.contains(&id) {
                            ctx.violation(case, "acknowledged-default-author-lost", json!({"script": script, "killed_at": at, "acknowledged_default": l, "set_in_progress": begun, "default_after_restart": id}));
                            return false;
                        }
                        ctx.count(if id == l { "restarts_with_the_acknowledged_default" } else { "restarts_with_the_default_being_set" }, 1);
                    } else {
                        ctx.count("restarts_before_any_acknowledgement", 1);
                    }
                    true
                }
            }
        };
        if !judge(ctx, &dir0, "none") {
            return;
        }
        let _ = std::fs::remove_dir_all(&dir0);
        let mut points: Vec<(String, usize)> = per.iter().flat_map(|(n, c)| (1..=*c).map(move |i| (n.clone(), i))).collect();
        let budget = if ctx.is_quick() { 48 } else { 600 };
        if points.len() > budget {
            // keep every call on a path (open, rename, link, unlink) and a seeded sample of the data calls
            let (keep, mut rest): (Vec<_>, Vec<_>) = points.into_iter().partition(|(n, _)| n.starts_with("rename") || n.starts_with("open") || n.starts_with("link") || n.starts_with("unlink") || n == "write");
            points = keep;
            while points.len() < budget && !rest.is_empty() {
                let i = rng.below(rest.len());
                points.push(rest.swap_remove(i));
            }
        }
        for (name, nth) in points {
            if ctx.out_of_time() {
                break;
            }
            let tag = format!("{name}{nth}");
            let dir = run_dir(&tag);
            std::fs::create_dir_all(&dir).unwrap();
            let st = strace_node(&exe, &format!("{}|{script}", dir.display()), seed, &scratch.dir.path().join("kill.strace"), Some((name.clone(), nth)));
            use std::os::unix::process::ExitStatusExt;
            match st {
                Some(s) if s.signal() == Some(libc::SIGKILL) || s.code() == Some(137) => ctx.count("children_killed_during_node_start", 1),
                Some(s) if s.success() => ctx.count("kill_point_not_reached", 1),
                other => {
                    ctx.harness_error(format!("strace run of a node start with a kill at {tag} ended unexpectedly: {other:?}"));
                    return;
                }
            }
            ctx.distinct("calls_killed_at", h64(name.as_bytes()));
            ctx.distinct("kill_points", h64(tag.as_bytes()));
            ctx.nontrivial(h64(format!("{case}:{tag}:{}", ctx.seed).as_bytes()));
            let ok = judge(ctx, &dir, &tag);
            let _ = std::fs::remove_dir_all(&dir);
            if !ok {
                return;
            }
        }
        if ctx.want_sample() {
            ctx.sample(json!({"case": case, "mode": "node", "script": script, "kill_points": total, "calls": per}));
        }
    }
}

// ---- mode `actor`: the same histories through the store actor --------------------------------
//
// The store of a node lives behind the store actor (`SyncHandle`), which adds two promises of its
// own: `flush_store()` returns when everything acknowledged before it is on disk, and `shutdown()`
// "triggers a flush on its own" before it hands the store back. The histories of the images mode are
// issued as requests to an actor over a database file. Images are taken where no write can be in
// progress: inside the store-access callback (H6; it runs on the actor thread), right after
// `flush_store` was acknowledged, and after `shutdown` returned (the returned store still alive).

async fn apply_actor(h: &iroh_docs::actor::SyncHandle, op: &Op, t: u64) {
    use iroh_docs::actor::OpenOpts;
    iroh_docs::verif::set_clock(t);
    let nss = [namespace(1), namespace(2)];
    match op {
        Op::Insert { doc, author: a, key, content: c } => {
            let id = nss[*doc].id();
            if h.open(id, OpenOpts::default()).await.is_ok() {
                let (hh, l) = content(*c);
                let _ = h.insert_local(id, author(*a as u8).id(), key.clone().into(), hh, l).await;
                let _ = h.close(id).await;
            }
        }
        Op::Delete { doc, author: a, key } => {
            let id = nss[*doc].id();
            if h.open(id, OpenOpts::default()).await.is_ok() {
                let _ = h.delete_prefix(id, author(*a as u8).id(), key.clone().into()).await;
                let _ = h.close(id).await;
            }
        }
        Op::Remote { doc, author: a, key, back, content: c } => {
            let id = nss[*doc].id();
            let rec = match c {
                None => iroh_docs::Record::empty(t - back),
                Some(i) => {
                    let (hh, l) = content(*i);
                    iroh_docs::Record::new(hh, l, t - back)
                }
            };
            let e = SignedEntry::from_parts(&nss[*doc], &author(*a as u8), key, rec);
            if h.open(id, OpenOpts::default().sync()).await.is_ok() {
                let _ = h.insert_remote(id, e, [1u8; 32], ContentStatus::Complete).await;
                let _ = h.close(id).await;
            }
        }
        Op::ImportAuthor(a) => {
            let _ = h.import_author(author(*a as u8)).await;
        }
        Op::ImportDoc(d) => {
            let _ = h.import_namespace(Capability::Write(nss[*d].clone())).await;
        }
        Op::Policy { doc, n } => {
            let f: Vec<FilterKind> = (0..*n).map(|i| FilterKind::Prefix(vec![b'a' + i as u8].into())).collect();
            let _ = h.set_download_policy(nss[*doc].id(), DownloadPolicy::NothingExcept(f)).await;
        }
        Op::Peer { doc, peer } => {
            let _ = h.register_useful_peer(nss[*doc].id(), [*peer + 1; 32]).await;
        }
        Op::Flush => {
            let _ = h.flush_store().await;
        }
        Op::Scan { doc } => {
            let id = nss[*doc].id();
            if h.open(id, OpenOpts::default()).await.is_ok() {
                let _ = crate::act::get_many(h, id, Query::all().build()).await;
                let _ = h.close(id).await;
            }
        }
        Op::List => {
            let (tx, mut rx) = irpc::channel::mpsc::channel::<iroh_docs::api::RpcResult<iroh_docs::api::protocol::ListResponse>>(64);
            let _ = h.list_replicas(tx).await;
            while let Ok(Some(_)) = rx.recv().await {}
            let (tx, mut rx) = irpc::channel::mpsc::channel::<iroh_docs::api::RpcResult<iroh_docs::api::protocol::AuthorListResponse>>(64);
            let _ = h.list_authors(tx).await;
            while let Ok(Some(_)) = rx.recv().await {}
        }
        Op::Hashes => {
            if let Ok(it) = h.content_hashes().await {
                let _ = it.count();
            }
        }
        Op::RemoveDoc(d) => {
            let _ = h.drop_replica(nss[*d].id()).await;
        }
    }
    iroh_docs::verif::set_clock(0);
}

fn run_actor(ctx: &mut Ctx) {
    let scratch = Scratch::new();
    let rt = crate::act::runtime(1);
    for case in ctx.cases(60, 6_000) {
        let mut rng = ctx.rng(case);
        let n = rng.range(6, 25);
        let ops = gen_history(&mut rng, n);
        let base = crate::gen::t0();
        let states = shadow_states(&ops, base);
        ctx.eval();
        ctx.nontrivial(h64(format!("{ops:?}").as_bytes()));
        for placement in ["actor:no-ageing", "actor:aged-at-every-access"] {
            let aged = placement.ends_with("every-access");
            let path = scratch.path("actor");
            let store = Store::persistent(&path).expect("create");
            let h = crate::act::spawn(store);
            let images: Arc<Mutex<Vec<(PathBuf, usize)>>> = Default::default();
            let cur_op: Arc<Mutex<usize>> = Arc::new(Mutex::new(0));
            let first_access = Arc::new(Mutex::new(0usize));
            {
                let images = images.clone();
                let db = path.clone();
                let dir = scratch.dir.path().to_path_buf();
                let cur_op = cur_op.clone();
                let first_access = first_access.clone();
                let counter = Arc::new(Mutex::new(0usize));
                // one access in three is imaged without ageing (images cost a file copy each)
                let mut pick = Rng::from_parts(&[case, 0xAC7]);
                iroh_docs::verif::set_access_callback(Some(Box::new(move |n| {
                    let op = *cur_op.lock().unwrap();
                    if op == 0 {
                        return;
                    }
                    let within = n - *first_access.lock().unwrap();
                    if aged || pick.chance(1, 3) {
                        let mut c = counter.lock().unwrap();
                        *c += 1;
                        let ipath = dir.join(format!("act-{}-{}.redb", n, *c));
                        if std::fs::copy(&db, &ipath).is_ok() {
                            images.lock().unwrap().push((ipath, within));
                        }
                    }
                    if aged {
                        iroh_docs::verif::age_transaction_at(n + 1);
                    }
                })));
            }
            let mut last_commit = 0;
            let mut ok = true;
            for (i, op) in ops.iter().enumerate() {
                *cur_op.lock().unwrap() = i + 1;
                let start = iroh_docs::verif::store_accesses();
                *first_access.lock().unwrap() = start;
                if aged {
                    iroh_docs::verif::age_transaction_at(start);
                }
                rt.block_on(apply_actor(&h, op, base + 10 * (i as u64 + 1)));
                *cur_op.lock().unwrap() = 0;
                iroh_docs::verif::age_transaction_at(usize::MAX);
                let taken: Vec<(PathBuf, usize)> = std::mem::take(&mut *images.lock().unwrap());
                for (ipath, within) in taken {
                    let img = Image { path: ipath, op_in_progress: Some(i + 1), completed: i, last_commit_op: last_commit, access: Some(within) };
                    if ok && !check_image(ctx, case, &img, &states, &ops, placement) {
                        ok = false;
                    } else {
                        let _ = std::fs::remove_file(&img.path);
                    }
                }
                if aged {
                    last_commit = i;
                }
                if matches!(op, Op::Flush) {
                    // acknowledged flush: everything before it is on disk; the actor is idle now
                    last_commit = i + 1;
                    let ipath = scratch.path("img-flush");
                    std::fs::copy(&path, &ipath).expect("copy image");
                    let img = Image { path: ipath, op_in_progress: None, completed: i + 1, last_commit_op: last_commit, access: None };
                    if ok && !check_image(ctx, case, &img, &states, &ops, "actor:after-flush_store") {
                        ok = false;
                    }
                }
                if !ok {
                    break;
                }
            }
            iroh_docs::verif::set_access_callback(None);
            iroh_docs::verif::age_transaction_at(usize::MAX);
            // shutdown hands the store back after flushing: the file must hold the final state while
            // the returned store is still alive
            let returned = rt.block_on(h.shutdown());
            if ok {
                match returned {
                    Ok(store) => {
                        let ipath = scratch.path("img-shutdown");
                        std::fs::copy(&path, &ipath).expect("copy image");
                        let img = Image { path: ipath, op_in_progress: None, completed: ops.len(), last_commit_op: ops.len(), access: None };
                        check_image(ctx, case, &img, &states, &ops, "actor:after-shutdown");
                        drop(store);
                    }
                    Err(e) => ctx.violation(case, "actor-shutdown-failed", json!(format!("{e:?}"))),
                }
            }
            drop(h);
            let _ = std::fs::remove_file(&path);
        }
    }
}
