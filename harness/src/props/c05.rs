//! C05 — queries return exactly the entries, order and window the query describes.

use std::collections::{BTreeMap, BTreeSet};

use iroh_docs::{
    store::{Query, SortBy, SortDirection, Store},
    AuthorId, NamespaceId, SignedEntry,
};
use serde_json::json;

use crate::{
    ctx::Ctx,
    gen::{prefix_successor, Universe},
    model::{is_prefix, AKey, E},
    rng::{h64, Rng},
    util::{dump, import_write, new_store, offer_local, offer_remote, Backend, Scratch},
};

#[derive(Clone, Debug, PartialEq, Eq, Hash)]
pub enum KeyF {
    Any,
    Exact(Vec<u8>),
    Prefix(Vec<u8>),
}

#[derive(Clone, Debug, PartialEq, Eq, Hash)]
pub struct QSpec {
    pub latest: bool,
    pub author: Option<[u8; 32]>,
    pub key: KeyF,
    pub by_key: bool, // sort key-then-author (flat only; latest is always by key)
    pub desc: bool,
    pub include_empty: bool,
    pub offset: u64,
    pub limit: Option<u64>,
}

impl QSpec {
    pub fn build(&self) -> Query {
        let dir = if self.desc { SortDirection::Desc } else { SortDirection::Asc };
        if self.latest {
            let mut b = Query::single_latest_per_key().sort_direction(dir);
            if let Some(a) = &self.author {
                b = b.author(AuthorId::from(a));
            }
            b = match &self.key {
                KeyF::Any => b,
                KeyF::Exact(k) => b.key_exact(k),
                KeyF::Prefix(k) => b.key_prefix(k),
            };
            if self.include_empty {
                b = b.include_empty();
            }
            if let Some(l) = self.limit {
                b = b.limit(l);
            }
            b.offset(self.offset).build()
        } else {
            let sort = if self.by_key { SortBy::KeyAuthor } else { SortBy::AuthorKey };
            let mut b = Query::all().sort_by(sort, dir);
            if let Some(a) = &self.author {
                b = b.author(AuthorId::from(a));
            }
            b = match &self.key {
                KeyF::Any => b,
                KeyF::Exact(k) => b.key_exact(k),
                KeyF::Prefix(k) => b.key_prefix(k),
            };
            if self.include_empty {
                b = b.include_empty();
            }
            if let Some(l) = self.limit {
                b = b.limit(l);
            }
            b.offset(self.offset).build()
        }
    }
    pub fn shape(&self) -> String {
        format!(
            "{}|author={}|key={}|{}|{}|empty={}|off={}|lim={}",
            if self.latest { "latest" } else { "flat" },
            if self.author.is_some() { "one" } else { "any" },
            match &self.key {
                KeyF::Any => "any".to_string(),
                KeyF::Exact(_) => "exact".to_string(),
                KeyF::Prefix(p) =>
                    if p.last() == Some(&0xFF) { "prefix..ff".to_string() } else { "prefix".to_string() },
            },
            if self.by_key || self.latest { "key-author" } else { "author-key" },
            if self.desc { "desc" } else { "asc" },
            self.include_empty,
            if self.offset == 0 { "0" } else { "n" },
            match self.limit {
                None => "none",
                Some(0) => "0",
                Some(_) => "n",
            }
        )
    }
    fn key_matches(&self, k: &[u8]) -> bool {
        match &self.key {
            KeyF::Any => true,
            KeyF::Exact(x) => x == k,
            KeyF::Prefix(p) => is_prefix(p, k),
        }
    }
    pub fn describe(&self) -> serde_json::Value {
        json!({
            "kind": if self.latest {"latest-per-key"} else {"flat"},
            "author": self.author.map(|a| hex::encode(&a[..2])),
            "key": match &self.key { KeyF::Any => "any".to_string(), KeyF::Exact(k) => format!("exact:{}", hex::encode(k)), KeyF::Prefix(k) => format!("prefix:{}", hex::encode(k)) },
            "sort": if self.by_key || self.latest {"key-author"} else {"author-key"},
            "desc": self.desc, "include_empty": self.include_empty, "offset": self.offset, "limit": self.limit,
        })
    }
}

/// Reference evaluation of a flat query over a dump (no ambiguity).
pub fn eval_flat(dump: &BTreeMap<AKey, SignedEntry>, q: &QSpec) -> Vec<SignedEntry> {
    let mut v: Vec<&SignedEntry> = dump
        .iter()
        .filter(|((a, k), x)| {
            q.author.map(|qa| qa == *a).unwrap_or(true)
                && q.key_matches(k)
                && (q.include_empty || !E::of(x).is_marker())
        })
        .map(|(_, x)| x)
        .collect();
    if q.by_key {
        v.sort_by(|x, y| (x.key(), x.author().to_bytes()).cmp(&(y.key(), y.author().to_bytes())));
    } else {
        v.sort_by(|x, y| (x.author().to_bytes(), x.key()).cmp(&(y.author().to_bytes(), y.key())));
    }
    if q.desc {
        v.reverse();
    }
    window(v.into_iter().cloned().collect(), q.offset, q.limit)
}

pub fn window(v: Vec<SignedEntry>, offset: u64, limit: Option<u64>) -> Vec<SignedEntry> {
    let it = v.into_iter().skip(offset as usize);
    match limit {
        Some(l) => it.take(l as usize).collect(),
        None => it.collect(),
    }
}

/// Check an *unwindowed* latest-per-key result against the specification; ties on the maximal
/// timestamp are accepted on any maximal entry. Returns a reason on mismatch.
pub fn check_latest(dump: &BTreeMap<AKey, SignedEntry>, q: &QSpec, got: &[SignedEntry]) -> Result<(), String> {
    // group by key over all authors, key filter first
    let mut groups: BTreeMap<Vec<u8>, Vec<&SignedEntry>> = BTreeMap::new();
    for ((_, k), x) in dump.iter() {
        if q.key_matches(k) {
            groups.entry(k.clone()).or_default().push(x);
        }
    }
    let passes = |x: &SignedEntry| {
        q.author.map(|a| a == x.author().to_bytes()).unwrap_or(true)
            && (q.include_empty || !E::of(x).is_marker())
    };
    let mut must: BTreeSet<Vec<u8>> = BTreeSet::new();
    let mut may: BTreeSet<Vec<u8>> = BTreeSet::new();
    let mut maximal: BTreeMap<Vec<u8>, Vec<&SignedEntry>> = BTreeMap::new();
    for (k, g) in groups.iter() {
        let mx = g.iter().map(|x| x.timestamp()).max().unwrap();
        let cands: Vec<&SignedEntry> = g.iter().copied().filter(|x| x.timestamp() == mx).collect();
        let n_pass = cands.iter().filter(|x| passes(x)).count();
        if n_pass == cands.len() {
            must.insert(k.clone());
        } else if n_pass > 0 {
            may.insert(k.clone());
        }
        maximal.insert(k.clone(), cands);
    }
    let mut seen = BTreeSet::new();
    let mut last: Option<Vec<u8>> = None;
    for x in got {
        let k = x.key().to_vec();
        if let Some(l) = &last {
            let ordered = if q.desc { k < *l } else { k > *l };
            if !ordered {
                return Err(format!("order-wrong|keys not strictly {} ({} after {})", if q.desc {"descending"} else {"ascending"}, hex::encode(&k), hex::encode(l)));
            }
        }
        last = Some(k.clone());
        if !q.key_matches(&k) {
            return Err(format!("returns-non-matching-key|returned key {} does not match the key filter", hex::encode(&k)));
        }
        let Some(cands) = maximal.get(&k) else {
            return Err(format!("returns-key-not-held|returned key {} is not held", hex::encode(&k)));
        };
        if !cands.iter().any(|c| *c == x) {
            let held = dump.get(&(x.author().to_bytes(), k.clone())) == Some(x);
            return Err(if held {
                format!("not-newest|entry returned for key {} by {} is not the newest among all authors", hex::encode(&k), hex::encode(&x.author().to_bytes()[..2]))
            } else {
                format!("returns-entry-not-held|entry returned for key {} is not held", hex::encode(&k))
            });
        }
        if !passes(x) {
            return Err(format!("filter-ignored|returned entry for key {} does not pass the author / include-empty filter", hex::encode(&k)));
        }
        seen.insert(k);
    }
    for k in must.iter() {
        if !seen.contains(k) {
            return Err(format!("misses-key|key {} missing from the result", hex::encode(k)));
        }
    }
    for k in seen.iter() {
        if !must.contains(k) && !may.contains(k) {
            return Err(format!("returns-extra-key|key {} must not be in the result", hex::encode(k)));
        }
    }
    Ok(())
}

pub fn run_query(store: &mut Store, ns: NamespaceId, q: &QSpec) -> anyhow::Result<Vec<SignedEntry>> {
    store.get_many(ns, q.build())?.collect()
}

fn short(v: &[SignedEntry]) -> Vec<String> {
    v.iter().map(|e| E::of(e).short()).collect()
}

/// Build a state through a history that includes prefix deletions (so that the by-key index
/// holds ids whose records are gone) with a neighbouring namespace in the same store.
pub fn build_state(rng: &mut Rng, store: &mut Store, uni: &Universe, other: &Universe, n: usize) {
    import_write(store, &uni.ns);
    import_write(store, &other.ns);
    for a in &uni.authors {
        store.import_author(a.clone()).unwrap();
    }
    let mut es = uni.entries(rng, n, 4);
    // arrival in increasing timestamp order mostly, so prefix deletions actually prune
    es.sort_by_key(|e| e.timestamp());
    if rng.chance(1, 3) {
        rng.shuffle(&mut es);
    }
    for e in es {
        if rng.chance(1, 4) && e.timestamp() != 0 {
            let a = uni.authors.iter().find(|a| a.id() == e.author()).unwrap();
            offer_local(store, uni.ns.id(), a, &e);
        } else {
            offer_remote(store, uni.ns.id(), &e);
        }
    }
    for e in other.entries(rng, n / 2 + 1, 3) {
        offer_remote(store, other.ns.id(), &e);
    }
}

pub fn query_space(rng: &mut Rng, dump: &BTreeMap<AKey, SignedEntry>, uni: &Universe, per_state: usize) -> Vec<QSpec> {
    let ids: Vec<[u8; 32]> = uni.authors.iter().map(|a| a.id().to_bytes()).collect();
    query_space_for(rng, dump, &ids, per_state)
}

pub fn query_space_for(rng: &mut Rng, dump: &BTreeMap<AKey, SignedEntry>, author_ids: &[[u8; 32]], per_state: usize) -> Vec<QSpec> {
    let n = dump.len() as u64;
    let mut authors: Vec<Option<[u8; 32]>> = vec![None];
    for a in author_ids {
        authors.push(Some(*a));
    }
    authors.push(Some([0xEE; 32])); // absent author
    let mut keyfs = vec![KeyF::Any];
    let held: Vec<Vec<u8>> = dump.keys().map(|(_, k)| k.clone()).collect::<BTreeSet<_>>().into_iter().collect();
    for k in held.iter() {
        keyfs.push(KeyF::Exact(k.clone()));
        keyfs.push(KeyF::Prefix(k.clone()));
        for l in 0..k.len() {
            keyfs.push(KeyF::Prefix(k[..l].to_vec()));
        }
        let mut ff = k.clone();
        ff.push(0xFF);
        keyfs.push(KeyF::Prefix(ff.clone()));
        keyfs.push(KeyF::Exact(ff));
        if let Some(s) = prefix_successor(k) {
            keyfs.push(KeyF::Prefix(s));
        }
        if !k.is_empty() {
            // the key with its last byte decremented and FF appended sorts right before k
            let mut p = k.clone();
            let l = p.len() - 1;
            if p[l] > 0 {
                p[l] -= 1;
                p.push(0xFF);
                keyfs.push(KeyF::Prefix(p));
            }
        }
    }
    keyfs.push(KeyF::Prefix(vec![0xFF]));
    keyfs.push(KeyF::Prefix(vec![0xFF, 0xFF]));
    keyfs.push(KeyF::Exact(vec![]));
    keyfs.push(KeyF::Prefix(vec![]));
    keyfs.sort_by_key(|k| format!("{k:?}"));
    keyfs.dedup();
    let offsets = [0, 0, 1, 2, n, n + 1];
    let limits = [None, None, Some(0), Some(1), Some(2), Some(n)];
    let mut out = vec![];
    for _ in 0..per_state {
        let latest = rng.chance(2, 5);
        out.push(QSpec {
            latest,
            author: *rng.pick(&authors),
            key: rng.pick(&keyfs).clone(),
            by_key: latest || rng.chance(1, 2),
            desc: rng.chance(1, 2),
            include_empty: rng.chance(1, 2),
            offset: *rng.pick(&offsets),
            limit: *rng.pick(&limits),
        });
    }
    out
}

/// Check one query against the dump. Returns (signature, detail) on violation.
pub fn check_query(store: &mut Store, ns: NamespaceId, dump: &BTreeMap<AKey, SignedEntry>, q: &QSpec) -> Option<(String, serde_json::Value)> {
    let got = match run_query(store, ns, q) {
        Ok(g) => g,
        Err(e) => return Some(("query-failed".into(), json!({"query": q.describe(), "err": format!("{e:?}")}))),
    };
    if !q.latest {
        let want = eval_flat(dump, q);
        if got != want {
            return Some((
                format!("flat-query-differs:{}", classify_flat(q, &got, &want)),
                json!({"query": q.describe(), "got": short(&got), "expected": short(&want)}),
            ));
        }
        return None;
    }
    // latest-per-key: the unwindowed result is checked against the choice-set semantics, the
    // windowed one must be the corresponding slice of it
    let mut unw = q.clone();
    unw.offset = 0;
    unw.limit = None;
    let full = match run_query(store, ns, &unw) {
        Ok(g) => g,
        Err(e) => return Some(("query-failed".into(), json!({"query": unw.describe(), "err": format!("{e:?}")}))),
    };
    if let Err(reason) = check_latest(dump, &unw, &full) {
        let code = reason.split('|').next().unwrap_or("").to_string();
        let sig = if (code == "not-newest" || code == "returns-extra-key") && q.author.is_some() {
            "latest-per-key-with-author-filter-not-newest-among-all-authors".to_string()
        } else {
            format!("latest-per-key-differs:{code}")
        };
        return Some((sig, json!({"query": unw.describe(), "got": short(&full), "reason": reason})));
    }
    let want = window(full.clone(), q.offset, q.limit);
    if got != want {
        return Some((
            "latest-per-key-window-differs".into(),
            json!({"query": q.describe(), "got": short(&got), "unwindowed": short(&full), "expected": short(&want)}),
        ));
    }
    None
}

fn classify_flat(q: &QSpec, got: &[SignedEntry], want: &[SignedEntry]) -> String {
    let g: BTreeSet<E> = got.iter().map(E::of).collect();
    let w: BTreeSet<E> = want.iter().map(E::of).collect();
    if let Some(extra) = g.difference(&w).next() {
        if !q.key_matches(&extra.key) {
            if matches!(&q.key, KeyF::Prefix(p) if p.last() == Some(&0xFF)) {
                return "returns-key-outside-prefix-ending-in-ff".into();
            }
            return "returns-non-matching-key".into();
        }
        if extra.is_marker() && !q.include_empty {
            return "returns-deletion-marker".into();
        }
        return "returns-extra-entry".into();
    }
    if w.difference(&g).next().is_some() {
        if q.offset > 0 || q.limit.is_some() {
            return "window-wrong".into();
        }
        return "misses-entry".into();
    }
    if got.len() != want.len() {
        return "window-wrong".into();
    }
    "order-wrong".into()
}

pub fn run(ctx: &mut Ctx) {
    let scratch = Scratch::new();
    let per_state = if ctx.is_quick() { 250 } else { 600 };
    for case in ctx.cases(400, 40_000) {
        let mut rng = ctx.rng(case);
        if case % 5 == 4 {
            raw_id_case(ctx, case, &mut rng, &scratch, per_state);
            continue;
        }
        let backend = if rng.chance(1, 6) { Backend::File } else { Backend::Memory };
        let (mut store, path) = new_store(backend, &scratch);
        let uni = Universe::new(&mut rng, 1);
        let other = Universe::new(&mut rng, 2);
        let n = rng.range(2, if ctx.is_quick() { 20 } else { 36 });
        build_state(&mut rng, &mut store, &uni, &other, n);
        let ns = uni.ns.id();
        // Half of the file-backed states are queried after the store was closed and opened again
        // (added after seeded change agent-C05-9): what an open does to the tables - clean-ups,
        // rebuilds - must leave every query answering from the entries the replica holds.
        if let Some(p) = path.as_ref().filter(|_| rng.chance(1, 2)) {
            let before = dump(&mut store, ns).ok();
            let _ = store.flush();
            drop(store);
            store = match Store::persistent(p) {
                Ok(s) => s,
                Err(e) => {
                    ctx.violation(case, "reopen-failed", json!({"err": format!("{e:?}")}));
                    continue;
                }
            };
            ctx.count("states_queried_after_a_reopen", 1);
            if dump(&mut store, ns).ok() != before {
                ctx.violation(case, "entries-differ-after-reopen", json!({}));
                continue;
            }
        }
        let dm = match dump(&mut store, ns) {
            Ok(d) => d,
            Err(e) => {
                ctx.violation(case, "dump-failed", json!({"err": format!("{e:?}")}));
                continue;
            }
        };
        ctx.eval();
        let state_h = h64(format!("{:?}", dm.values().map(|e| E::of(e)).collect::<Vec<_>>()).as_bytes());
        if dm.len() >= 2 {
            ctx.nontrivial(state_h);
        }
        if ctx.want_sample() {
            ctx.sample(json!({"case": case, "state": short(&dm.values().cloned().collect::<Vec<_>>())}));
        }
        // point lookups agree with the dump
        let mut ids: Vec<AKey> = dm.keys().cloned().collect();
        for a in &uni.authors {
            ids.push((a.id().to_bytes(), vec![0x61, 0xFF]));
            ids.push((a.id().to_bytes(), vec![]));
        }
        for (a, k) in ids {
            for inc in [true, false] {
                ctx.count("point_lookups", 1);
                let want = dm
                    .get(&(a, k.clone()))
                    .filter(|x| inc || !E::of(x).is_marker())
                    .cloned();
                match store.get_exact(ns, AuthorId::from(&a), &k, inc) {
                    Ok(got) if got == want => {}
                    other => {
                        ctx.violation(case, "point-lookup-disagrees-with-scan", json!({"author": hex::encode(&a[..2]), "key": hex::encode(&k), "include_empty": inc, "got": format!("{other:?}")}));
                    }
                }
            }
        }
        // the two access paths
        for inc in [true, false] {
            let q1 = QSpec { latest: false, author: None, key: KeyF::Any, by_key: false, desc: false, include_empty: inc, offset: 0, limit: None };
            let mut q2 = q1.clone();
            q2.by_key = true;
            if let (Ok(a), Ok(b)) = (run_query(&mut store, ns, &q1), run_query(&mut store, ns, &q2)) {
                let sa: BTreeSet<E> = a.iter().map(E::of).collect();
                let sb: BTreeSet<E> = b.iter().map(E::of).collect();
                ctx.count("path_comparisons", 1);
                if sa != sb || a.len() != b.len() {
                    ctx.violation(case, "access-paths-disagree", json!({"include_empty": inc, "author_key": short(&a), "key_author": short(&b)}));
                }
            }
        }
        for q in query_space(&mut rng, &dm, &uni, per_state) {
            ctx.count("queries", 1);
            ctx.distinct("query_shapes", h64(q.shape().as_bytes()));
            if let Some((sig, detail)) = check_query(&mut store, ns, &dm, &q) {
                let mut d = detail;
                d["state"] = json!(short(&dm.values().cloned().collect::<Vec<_>>()));
                ctx.violation(case, &sig, d);
            }
        }
    }
}

/// States whose namespace and author ids sit at a carry boundary (id ending in 0xFF next to its
/// carried successor). Such ids cannot be signed for, so the entries are written below the
/// validation layer (hook H3); the query engine and its table bounds are the same.
fn raw_id_case(ctx: &mut Ctx, case: u64, rng: &mut Rng, scratch: &Scratch, per_state: usize) {
    use crate::wire::RawEntry;
    let t0 = crate::gen::t0();
    let mk_pair = |rng: &mut Rng| -> ([u8; 32], [u8; 32]) {
        let mut a = rng.fill32();
        let ffs = rng.range(1, 2);
        for i in 0..ffs {
            a[31 - i] = 0xFF;
        }
        if a[31 - ffs] == 0xFF {
            a[31 - ffs] = 0x05;
        }
        let mut b = a;
        b[31 - ffs] += 1;
        for i in 0..ffs {
            b[31 - i] = rng.next_u64() as u8;
        }
        (a, b)
    };
    let (ns_a, ns_b) = mk_pair(rng);
    let (au_a, au_b) = mk_pair(rng);
    let authors = [au_a, au_b, rng.fill32()];
    let (mut store, _) = new_store(if rng.chance(1, 8) { Backend::File } else { Backend::Memory }, scratch);
    for ns in [ns_a, ns_b] {
        store.import_namespace(iroh_docs::Capability::Read(NamespaceId::from(&ns))).unwrap();
        let mut keys: Vec<Vec<u8>> = vec![];
        for _ in 0..rng.range(2, 14) {
            let k = crate::gen::key(rng, &keys, 3);
            keys.push(k.clone());
            let a = *rng.pick(&authors);
            let marker = rng.chance(1, 4);
            let (h, l) = if marker { (iroh_blobs::Hash::EMPTY, 0) } else { crate::gen::content(rng.below(4)) };
            let mut id = ns.to_vec();
            id.extend_from_slice(&a);
            id.extend_from_slice(&k);
            let raw = RawEntry { author_sig: [1; 64], namespace_sig: [2; 64], id, len: l, hash: *h.as_bytes(), ts: t0 + rng.below(8) as u64 };
            if let Ok(e) = raw.into_entry() {
                let _ = iroh_docs::verif::si_entry_put(&mut store, NamespaceId::from(&ns), e);
            }
        }
    }
    let ns = NamespaceId::from(&ns_a);
    let Ok(dm) = dump(&mut store, ns) else {
        ctx.violation(case, "dump-failed", json!({"ids": "carry-boundary"}));
        return;
    };
    ctx.eval();
    ctx.count("raw_id_states", 1);
    if dm.values().any(|e| e.namespace() != ns) {
        ctx.violation(case, "scan-returns-entries-of-another-document[carry-boundary-ids]", json!({"ns_a": hex::encode(&ns_a[28..]), "ns_b": hex::encode(&ns_b[28..])}));
        return;
    }
    if dm.len() >= 2 {
        ctx.nontrivial(h64(format!("raw{:?}", dm.keys().collect::<Vec<_>>()).as_bytes()));
    }
    for q in query_space_for(rng, &dm, &authors, per_state / 2) {
        ctx.count("queries", 1);
        if let Some((sig, detail)) = check_query(&mut store, ns, &dm, &q) {
            let mut d = detail;
            d["authors"] = json!(authors.iter().map(|a| hex::encode(&a[28..])).collect::<Vec<_>>());
            ctx.violation(case, &format!("{sig}[carry-boundary-ids]"), d);
            return;
        }
    }
}
