//! C15 — download policies persist and decide downloads exactly as specified.

use std::str::FromStr;

use bytes::Bytes;
use iroh_docs::{
    actor::OpenOpts,
    store::{DownloadPolicy, FilterKind, Store},
    Capability, ContentStatus, Entry, Event, Record, RecordIdentifier,
};
use serde_json::json;

use crate::{
    act,
    ctx::Ctx,
    gen::{key, namespace, Universe, ALPHABET},
    model::is_prefix,
    rng::{h64, Rng},
    util::{new_store, Backend, Scratch},
};

#[derive(Clone, Debug)]
pub enum F {
    Prefix(Vec<u8>),
    Exact(Vec<u8>),
}
#[derive(Clone, Debug)]
pub struct P {
    pub nothing_except: bool,
    pub filters: Vec<F>,
}

pub fn spec_matches(p: &P, k: &[u8]) -> bool {
    let any = p.filters.iter().any(|f| match f {
        F::Prefix(x) => is_prefix(x, k),
        F::Exact(x) => x == k,
    });
    if p.nothing_except { any } else { !any }
}

pub fn real(p: &P) -> DownloadPolicy {
    let f = p
        .filters
        .iter()
        .map(|f| match f {
            F::Prefix(x) => FilterKind::Prefix(Bytes::from(x.clone())),
            F::Exact(x) => FilterKind::Exact(Bytes::from(x.clone())),
        })
        .collect();
    if p.nothing_except { DownloadPolicy::NothingExcept(f) } else { DownloadPolicy::EverythingExcept(f) }
}

pub fn gen_policy(rng: &mut Rng) -> P {
    let n = rng.below(6);
    let mut keys = vec![];
    let filters = (0..n)
        .map(|_| {
            let k = match rng.below(6) {
                0 => vec![],
                1 => vec![0xC3, 0x28], // invalid UTF-8
                2 => b"a:b".to_vec(),
                _ => key(rng, &keys, 3),
            };
            keys.push(k.clone());
            if rng.chance(1, 2) { F::Prefix(k) } else { F::Exact(k) }
        })
        .collect();
    P { nothing_except: rng.chance(1, 2), filters }
}

fn all_keys(max: usize) -> Vec<Vec<u8>> {
    let mut out = vec![vec![]];
    let mut layer = vec![vec![]];
    for _ in 0..max {
        let mut next = vec![];
        for k in &layer {
            for b in ALPHABET {
                let mut k2: Vec<u8> = k.clone();
                k2.push(b);
                next.push(k2);
            }
        }
        out.extend(next.iter().cloned());
        layer = next;
    }
    out
}

/// Mode `live`: the download decisions of the live actor (hook H7). Entries enter a document through
/// the real store actor under a random policy; the replica events it emits are handed to the live
/// actor's own handler, neighbours then announce content. Content is *selected for download exactly
/// when* the policy selects the entry's key: a selected entry whose sender has the content gets a
/// download queued at once, a selected entry whose sender lacks it is remembered and queued when a
/// neighbour announces the content, and the content of an entry that is not selected is never queued
/// or remembered, whoever announces it. Every entry has its own content hash; an entry is judged
/// only while the policy in force still decides about its key as it did when the entry arrived.
fn live_mode(ctx: &mut Ctx) {
    use iroh_docs::{actor::OpenOpts, Capability, ContentStatus, Event, NamespaceSecret};
    let rt = crate::act::runtime(2);
    rt.block_on(async {
        let mut node = match super::c11::make_node(200 + ctx.shard as u8).await {
            Ok(n) => n,
            Err(e) => {
                ctx.harness_error(format!("cannot create live actor: {e:?}"));
                return;
            }
        };
        let provider = iroh::SecretKey::from_bytes(&[77u8; 32]).public();
        let neighbour = iroh::SecretKey::from_bytes(&[78u8; 32]).public();
        let mut unique = 0u64;
        for case in ctx.cases(1_500, 100_000) {
            let mut rng = ctx.rng(case);
            ctx.eval();
            let secret = NamespaceSecret::from_bytes(&rng.fill32());
            let ns = secret.id();
            let uni = crate::gen::Universe::with(secret.clone(), 2);
            let (tx, rx) = async_channel::unbounded::<Event>();
            if node.sync.import_namespace(Capability::Write(secret)).await.is_err() || node.sync.open(ns, OpenOpts::default().sync().subscribe(tx)).await.is_err() {
                ctx.harness_error("cannot open the document");
                return;
            }
            let mut policy: Option<P> = None;
            // (hash, key, selected when it arrived, sender had the content, announced since)
            let mut seen: Vec<(iroh_blobs::Hash, Vec<u8>, bool, bool, bool)> = vec![];
            let mut keys: Vec<Vec<u8>> = vec![];
            let mut trace: Vec<String> = vec![];
            let mut both = (false, false);
            'steps: for step in 0..rng.range(4, 16) {
                match rng.below(8) {
                    0 => {
                        let p = gen_policy(&mut rng);
                        let _ = node.sync.set_download_policy(ns, real(&p)).await;
                        trace.push(format!("policy {p:?}"));
                        policy = Some(p);
                    }
                    1 | 2 if !seen.is_empty() => {
                        // a neighbour announces content
                        let i = rng.below(seen.len());
                        let (hash, key, ..) = seen[i].clone();
                        node.actor.verif_on_neighbor_content_ready(ns, neighbour, hash).await;
                        seen[i].4 = true;
                        trace.push(format!("neighbour has the content of {}", hex::encode(&key)));
                        ctx.count("content_announcements", 1);
                    }
                    _ => {
                        unique += 1;
                        let k = key(&mut rng, &keys, 3);
                        keys.push(k.clone());
                        let data = format!("live-{}-{case}-{unique}", ctx.shard);
                        let hash = iroh_blobs::Hash::new(data.as_bytes());
                        let rec = iroh_docs::Record::new(hash, data.len() as u64, uni.t0 + step as u64 + 1);
                        let e = iroh_docs::SignedEntry::from_parts(&uni.ns, &uni.authors[rng.below(2)], &k, rec);
                        let has = rng.chance(1, 2);
                        let status = if has { ContentStatus::Complete } else if rng.chance(1, 2) { ContentStatus::Missing } else { ContentStatus::Incomplete };
                        let r = node.sync.insert_remote(ns, e, *provider.as_bytes(), status).await;
                        let mut events = 0;
                        while let Ok(ev) = rx.try_recv() {
                            events += 1;
                            if let Err(e) = node.actor.verif_on_replica_event(ev).await {
                                ctx.harness_error(format!("replica event handler: {e:?}"));
                                break 'steps;
                            }
                        }
                        let selected = policy.as_ref().map(|p| spec_matches(p, &k)).unwrap_or(true);
                        trace.push(format!("entry {} (sender {} the content) -> {}; the policy {} it", hex::encode(&k), if has { "has" } else { "lacks" }, if r.is_ok() { "applied" } else { "refused" }, if selected { "selects" } else { "does not select" }));
                        if r.is_ok() && events == 1 {
                            seen.push((hash, k, selected, has, false));
                            ctx.count("entries_arrived", 1);
                            if selected { both.0 = true } else { both.1 = true }
                        }
                    }
                }
                // judge every entry seen so far
                for (hash, k, sel, has, announced) in &seen {
                    let now = policy.as_ref().map(|p| spec_matches(p, k)).unwrap_or(true);
                    if now != *sel {
                        continue;
                    }
                    let (queued, missing) = node.actor.verif_download_state(hash);
                    ctx.count("download_decisions_checked", 1);
                    let sig = if !*sel && (queued || missing) {
                        Some(if queued { "content-of-an-entry-the-policy-excludes-is-downloaded" } else { "content-of-an-entry-the-policy-excludes-is-remembered-for-download" })
                    } else if *sel && (*has || *announced) && !queued {
                        Some("content-of-a-selected-entry-is-not-downloaded")
                    } else if *sel && !*has && !*announced && !(missing && !queued) {
                        Some("selected-entry-whose-sender-lacks-the-content-is-not-remembered")
                    } else {
                        None
                    };
                    if let Some(sig) = sig {
                        ctx.violation(case, sig, json!({"key": hex::encode(k), "selected": sel, "sender_had_content": has, "announced": announced, "queued": queued, "remembered_missing": missing, "trace": trace}));
                        break 'steps;
                    }
                }
            }
            let _ = node.sync.close(ns).await;
            if both.0 && both.1 {
                ctx.nontrivial(h64(format!("{trace:?}").as_bytes()));
            }
            if ctx.want_sample() {
                ctx.sample(json!({"case": case, "mode": "live", "trace": trace}));
            }
        }
        let _ = node.actor.verif_shutdown().await;
        node._ep.close().await;
    });
}

pub fn run(ctx: &mut Ctx) {
    if ctx.mode.as_deref() == Some("live") {
        return live_mode(ctx);
    }
    let scratch = Scratch::new();
    let keys = all_keys(3);
    let ns = namespace(1);
    for case in ctx.cases(2_000, 100_000) {
        let mut rng = ctx.rng(case);
        ctx.eval();
        match case % 4 {
            0 => matcher_case(ctx, case, &mut rng, &keys, &ns),
            1 => persistence_case(ctx, case, &mut rng, &scratch),
            2 => filter_text_case(ctx, case, &mut rng),
            _ => event_case(ctx, case, &mut rng),
        }
    }
}

fn matcher_case(ctx: &mut Ctx, case: u64, rng: &mut Rng, keys: &[Vec<u8>], ns: &iroh_docs::NamespaceSecret) {
    let p = gen_policy(rng);
    let rp = real(&p);
    let author = crate::gen::author(1);
    let mut extra: Vec<Vec<u8>> = p.filters.iter().map(|f| match f { F::Prefix(x) | F::Exact(x) => x.clone() }).collect();
    for k in extra.clone() {
        let mut k2 = k.clone();
        k2.push(0);
        extra.push(k2);
        if !k.is_empty() {
            extra.push(k[..k.len() - 1].to_vec());
        }
    }
    let mut pos = 0;
    let mut neg = 0;
    for k in keys.iter().chain(extra.iter()) {
        let e = Entry::new(RecordIdentifier::new(ns.id(), author.id(), k), Record::empty(1));
        let want = spec_matches(&p, k);
        if want { pos += 1 } else { neg += 1 }
        ctx.count("matcher_checks", 1);
        if rp.matches(&e) != want {
            ctx.violation(case, if p.nothing_except {"nothing-except-policy-mismatch"} else {"everything-except-policy-mismatch"},
                json!({"policy": format!("{p:?}"), "key": hex::encode(k), "expected": want}));
            return;
        }
    }
    if pos > 0 && neg > 0 {
        ctx.nontrivial(h64(format!("{p:?}").as_bytes()));
    }
    if ctx.want_sample() {
        ctx.sample(json!({"case": case, "policy": format!("{p:?}"), "keys_selected": pos, "keys_not_selected": neg}));
    }
}

fn persistence_case(ctx: &mut Ctx, case: u64, rng: &mut Rng, scratch: &Scratch) {
    let file = rng.chance(1, 2);
    let (mut store, mut path) = new_store(if file { Backend::File } else { Backend::Memory }, scratch);
    let docs = [namespace(1), namespace(2)];
    // documents start read-only or writable; capabilities are imported again along the way
    for d in &docs {
        let cap = if rng.chance(1, 2) { Capability::Write(d.clone()) } else { Capability::Read(d.id()) };
        store.import_namespace(cap).unwrap();
    }
    let missing = namespace(5).id();
    let mut model: [DownloadPolicy; 2] = [DownloadPolicy::default(), DownloadPolicy::default()];
    let mut trace = vec![];
    for _ in 0..rng.range(2, 10) {
        match rng.below(7) {
            6 => {
                // another operation on the document that is not about its policy: a capability
                // import (same, upgrade, or read after write), a peer registration, open and close
                let d = rng.below(2);
                match rng.below(4) {
                    3 => {
                        // the document is removed and imported again (added after seeded change
                        // agent-C15-7): the new document is one for which no policy was ever set, on
                        // this store instance and after every later reopen
                        store.close_replica(docs[d].id());
                        if store.remove_replica(&docs[d].id()).is_ok() {
                            let cap = if rng.chance(1, 2) { Capability::Write(docs[d].clone()) } else { Capability::Read(docs[d].id()) };
                            store.import_namespace(cap).unwrap();
                            model[d] = DownloadPolicy::default();
                            trace.push(format!("doc{d} removed and imported again"));
                            ctx.count("documents_removed_and_imported_again", 1);
                        }
                    }
                    0 => {
                        let write = rng.chance(2, 3);
                        let cap = if write { Capability::Write(docs[d].clone()) } else { Capability::Read(docs[d].id()) };
                        let r = store.import_namespace(cap);
                        trace.push(format!("import {} capability for doc{d} -> {:?}", if write { "write" } else { "read" }, r.ok()));
                    }
                    1 => {
                        let _ = store.register_useful_peer(docs[d].id(), rng.fill32());
                        trace.push(format!("register a peer for doc{d}"));
                    }
                    _ => {
                        let _ = store.open_replica(&docs[d].id()).map(|_| ());
                        store.close_replica(docs[d].id());
                        trace.push(format!("open and close doc{d}"));
                    }
                }
                ctx.count("other_operations_on_the_document", 1);
            }
            0 => {
                ctx.count("set_for_missing_document", 1);
                if store.set_download_policy(&missing, real(&gen_policy(rng))).is_ok() {
                    ctx.violation(case, "policy-set-for-nonexistent-document", json!({"trace": trace}));
                }
                match store.get_download_policy(&missing) {
                    Ok(p) if p == DownloadPolicy::default() => {}
                    other => ctx.violation(case, "nonexistent-document-has-policy", json!({"got": format!("{other:?}")})),
                }
            }
            1 if file => {
                store.flush().unwrap();
                drop(store);
                if rng.chance(1, 3) {
                    // the same rows in a file of the on-disk format of iroh-docs 0.94..=0.98, which the
                    // open converts: an upgrade is a reopen like any other (added after seeded change
                    // agent-C15-8)
                    let mut p = path.clone().unwrap();
                    let newp = scratch.path("c15-old-format");
                    match crate::oldfile::reopen_through_old_format(&mut p, newp) {
                        Ok(s) => store = s,
                        Err(Ok(text)) => {
                            ctx.harness_error(text);
                            return;
                        }
                        Err(Err(e)) => {
                            ctx.violation(case, "reopen-of-old-format-file-failed", json!({"err": format!("{e:?}"), "trace": trace}));
                            return;
                        }
                    }
                    path = Some(p);
                    trace.push("reopen through an old-format file".into());
                    ctx.count("reopens_through_old_format_files", 1);
                } else {
                    store = Store::persistent(path.as_ref().unwrap()).expect("reopen");
                    trace.push("reopen".into());
                }
                ctx.count("reopens", 1);
            }
            _ => {
                let d = rng.below(2);
                let p = real(&gen_policy(rng));
                if let Err(e) = store.set_download_policy(&docs[d].id(), p.clone()) {
                    ctx.violation(case, "policy-set-failed", json!({"err": format!("{e:?}")}));
                    return;
                }
                trace.push(format!("set doc{d} {p:?}"));
                model[d] = p;
                ctx.count("policy_sets", 1);
            }
        }
        for d in 0..2 {
            ctx.count("policy_reads", 1);
            match store.get_download_policy(&docs[d].id()) {
                Ok(p) if p == model[d] => {}
                other => {
                    let sig = if trace.last().map(|t| t == "reopen").unwrap_or(false) { "policy-changed-by-reopen" } else { "policy-read-differs-from-last-set" };
                    ctx.violation(case, sig, json!({"doc": d, "got": format!("{other:?}"), "expected": format!("{:?}", model[d]), "trace": trace}));
                    return;
                }
            }
        }
    }
    if trace.len() >= 2 {
        ctx.nontrivial(h64(format!("{trace:?}").as_bytes()));
    }
}

fn filter_text_case(ctx: &mut Ctx, case: u64, rng: &mut Rng) {
    for _ in 0..50 {
        // round trip of filters
        let bytes = match rng.below(5) {
            0 => vec![],
            1 => { let n = rng.below(6); rng.bytes(n) }
            2 => b"prefix:utf8:x".to_vec(),
            3 => format!("a:{}:b", rng.below(9)).into_bytes(),
            _ => key(rng, &[], 4),
        };
        let f = if rng.chance(1, 2) { FilterKind::Prefix(bytes.clone().into()) } else { FilterKind::Exact(bytes.clone().into()) };
        let text = f.to_string();
        ctx.count("filter_round_trips", 1);
        match FilterKind::from_str(&text) {
            Ok(g) if g == f => {}
            other => {
                ctx.violation(case, "filter-text-round-trip-differs", json!({"filter": format!("{f:?}"), "text": text, "parsed": format!("{other:?}")}));
                return;
            }
        }
        ctx.nontrivial(h64(text.as_bytes()));
        ctx.eval();
        // arbitrary strings: value or error; a value must survive its own textual form
        let parts = ["prefix", "exact", "hex", "utf8", ":", "::", "zz", "0a", "ff", "é", "", "Prefix", " "];
        let s: String = (0..rng.below(6)).map(|_| *rng.pick(&parts)).collect::<Vec<_>>().join(if rng.chance(1, 2) { ":" } else { "" });
        ctx.count("filter_strings_parsed", 1);
        if let Ok(v) = FilterKind::from_str(&s) {
            match FilterKind::from_str(&v.to_string()) {
                Ok(w) if w == v => {}
                other => {
                    ctx.violation(case, "parsed-filter-does-not-survive-its-text", json!({"input": s, "value": format!("{v:?}"), "reparsed": format!("{other:?}")}));
                    return;
                }
            }
        }
    }
}

fn event_case(ctx: &mut Ctx, case: u64, rng: &mut Rng) {
    let uni = Universe::new(rng, 1);
    let other = namespace(2);
    let p = gen_policy(rng);
    let p_other = gen_policy(rng);
    let mut store = Store::memory();
    store.import_namespace(Capability::Write(uni.ns.clone())).unwrap();
    store.import_namespace(Capability::Write(other.clone())).unwrap();
    let entries = uni.entries(rng, 8, 3);
    let via_message = rng.chance(1, 2);
    if via_message {
        ctx.count("event_flag_histories_with_one_reconciliation_message", 1);
    }
    let rt = act::runtime(1);
    let res: Result<Option<String>, String> = rt.block_on(async {
        let h = act::spawn(store);
        let (tx, rx) = async_channel::unbounded::<Event>();
        h.open(uni.ns.id(), OpenOpts::default().sync().subscribe(tx)).await.map_err(|e| e.to_string())?;
        h.set_download_policy(uni.ns.id(), real(&p)).await.map_err(|e| e.to_string())?;
        h.set_download_policy(other.id(), real(&p_other)).await.map_err(|e| e.to_string())?;
        let mut bad = None;
        // Half of the histories deliver all entries in ONE reconciliation message (added after seeded
        // change agent-C15-10): the contents come from a pool of four, so a message carries the same
        // content under keys the policy selects and keys it does not, next to values that are dropped
        // on receipt because a newer one is in the same message. The flag of an event is decided by the
        // policy and the key of *its* entry.
        if via_message {
            use crate::wire::{RawEntry, RawMessage, RawPart};
            let zero = vec![0u8; 64];
            let m = RawMessage { parts: vec![RawPart::Item { x: zero.clone(), y: zero, values: entries.iter().map(|e| (RawEntry::of(e), 0u8)).collect(), have_local: true }] };
            let msg = m.into_message().map_err(|e| e.to_string())?;
            let r = h.sync_process_message(uni.ns.id(), msg, [7u8; 32], iroh_docs::SyncOutcome::default()).await;
            for ev in act::drain(&rx) {
                if let Event::RemoteInsert { entry, should_download, .. } = ev {
                    let want = spec_matches(&p, entry.key());
                    if should_download != want {
                        bad = Some(format!("key {} flag {} expected {} (entry of a reconciliation message with {} values, result {:?})", hex::encode(entry.key()), should_download, want, entries.len(), r.is_ok()));
                    }
                }
            }
        }
        for e in entries.iter().filter(|_| !via_message) {
            let r = h.insert_remote(uni.ns.id(), e.clone(), [7u8; 32], ContentStatus::Complete).await;
            for ev in act::drain(&rx) {
                if let Event::RemoteInsert { entry, should_download, .. } = ev {
                    let want = spec_matches(&p, entry.key());
                    if should_download != want {
                        bad = Some(format!("key {} flag {} expected {} (insert result {:?})", hex::encode(entry.key()), should_download, want, r.is_ok()));
                    }
                }
            }
        }
        let _ = h.shutdown().await;
        Ok(bad)
    });
    ctx.count("event_flag_histories", 1);
    match res {
        Err(e) => ctx.violation(case, "actor-request-failed", json!({"err": e})),
        Ok(Some(b)) => ctx.violation(case, "download-flag-differs-from-policy", json!({"policy": format!("{p:?}"), "other_document_policy": format!("{p_other:?}"), "what": b})),
        Ok(None) => {}
    }
}
