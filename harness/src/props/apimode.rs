//! Mode `api` — one complete docs node driven through its client layer (`DocsApi`, `Doc`), compared
//! reply by reply with a sequential specification.
//!
//! The other modes talk to the store or to the store actor; an application talks to `DocsApi`: the
//! RPC actor, the engine and the live actor sit in between and add state of their own (a `Doc`'s
//! client-side closed flag, the handle the live actor holds while a document syncs, its subscription
//! to the replica, the switch `start_sync` / `leave` / `share` / `drop_doc` flip). This mode runs
//! histories of client calls on two documents and checks every reply, `status()` after every step
//! and the full content now and then (reads commit the write batch, so not always).
//!
//! The workload serves five properties; a run judges only the clauses of its own (`ctx.prop`):
//!  * **C14** — open/close counting as the client sees it (`status().handles` = live client handles
//!    + one while the node syncs the document), the sync switch, gating of every call on "open",
//!    replies that reflect all earlier requests (writes, deletions, authors deleted and imported);
//!  * **C07** — a document imported read-only refuses local writes and `share(Write)`, accepts them
//!    at once after the write secret was imported (through any handle), is listed with the right
//!    kind, and the ticket of `share(Write)` carries the secret;
//!  * **C16** — `drop_doc` is refused while another handle holds the document and then changes
//!    nothing; after a successful drop every stale handle fails, the document is not listed, and a
//!    re-import is empty.
//!  * **C12** — on every event subscription of the client: behind an accepted write, exactly the
//!    accepted local writes since the subscription began, in order; when `drop_doc` ends the stream, a
//!    prefix of them;
//!  * **C15** — a policy set through a handle is read back until another is set or the document is
//!    dropped (then the default); setting one for a document the node does not have is refused.
//! A mismatch that belongs to another property is counted, not reported; the history goes on.

use std::collections::BTreeMap;

use iroh::{endpoint::presets, protocol::Router, Endpoint, RelayMode, SecretKey};
use iroh_docs::{
    api::{
        protocol::{AddrInfoOptions, ShareMode},
        Doc,
    },
    protocol::Docs,
    store::Query,
    Capability, CapabilityKind, NamespaceSecret,
};
use iroh_gossip::net::Gossip;
use n0_future::StreamExt;
use serde_json::json;

use crate::{
    ctx::Ctx,
    gen::{content, key as gen_key, Universe},
    model::{Model, E},
    rng::{h64, Rng},
};

#[derive(Clone, Copy, PartialEq, Eq, PartialOrd, Ord, Debug)]
enum Cap {
    None,
    Read,
    Write,
}

struct DocM {
    secret: NamespaceSecret,
    cap: Cap,
    /// handles at the store actor (client handles + the live actor's while syncing)
    handles: usize,
    sync: bool,
    subs: usize,
    /// the live actor syncs the document
    syncing: bool,
    entries: Model,
    /// client handles that were not closed through their own `close()`
    held: Vec<Doc>,
    /// handles whose `close()` was called (every call through them must be refused by the client)
    closed: Vec<Doc>,
    streams: Vec<Sub>,
    /// last policy set successfully (None: never set since the document came to this node)
    policy: Option<iroh_docs::store::DownloadPolicy>,
    /// Subscriptions whose receiving end is gone or going (every `drop_doc`, refused or not, ends the
    /// event streams of the document: `kill_subscribers`). The replica forgets such a subscriber when
    /// it next fails to deliver to it, so until observed the count may or may not include them.
    zombies: usize,
}

impl DocM {
    fn close_one(&mut self) {
        if self.handles > 0 {
            self.handles -= 1;
            if self.handles == 0 {
                self.sync = false;
                self.subs = 0;
                self.zombies = 0;
                for sub in self.streams.iter_mut() {
                    sub.frozen = true;
                }
            }
        }
    }
    fn open_one(&mut self, sync: bool, sub: bool) {
        self.handles += 1;
        self.sync |= sync;
        self.subs += sub as usize;
    }
}

/// One event subscription of the client: what arrived, and the local writes accepted since it began.
struct Sub {
    got: std::sync::Arc<std::sync::Mutex<Vec<String>>>,
    task: tokio::task::JoinHandle<()>,
    expected: Vec<String>,
    /// the document was closed at the actor meanwhile (last handle given back): the replica has
    /// dropped this subscription, later writes are not announced on it
    frozen: bool,
}

fn spawn_sub<S>(stream: S) -> Sub
where
    S: n0_future::Stream<Item = anyhow::Result<iroh_docs::engine::LiveEvent>> + Send + 'static,
{
    let got = std::sync::Arc::new(std::sync::Mutex::new(Vec::new()));
    let g2 = got.clone();
    let task = tokio::spawn(async move {
        tokio::pin!(stream);
        while let Some(ev) = stream.next().await {
            if let Ok(iroh_docs::engine::LiveEvent::InsertLocal { entry }) = ev {
                let e = E { author: entry.author().to_bytes(), key: entry.key().to_vec(), ts: entry.timestamp(), hash: *entry.content_hash().as_bytes(), len: entry.content_len() };
                g2.lock().unwrap().push(e.short());
            } else if let Ok(iroh_docs::engine::LiveEvent::InsertRemote { .. }) = ev {
                g2.lock().unwrap().push("remote-insert-on-a-node-without-peers".to_string());
            }
        }
    });
    Sub { got, task, expected: vec![], frozen: false }
}

/// Wait (bounded) for the event of the last accepted write; everything before it has then been
/// delivered on the same ordered stream. None = it did not arrive in time (inconclusive).
async fn fence(sub: &Sub) -> Option<Result<(), (Vec<String>, Vec<String>)>> {
    let Some(last) = sub.expected.last() else { return Some(Ok(())) };
    for _ in 0..2000 {
        let got = sub.got.lock().unwrap().clone();
        if got.len() >= sub.expected.len() || got.last() == Some(last) {
            return Some(if got == sub.expected { Ok(()) } else { Err((got, sub.expected.clone())) });
        }
        tokio::time::sleep(std::time::Duration::from_millis(10)).await;
    }
    None
}

struct Node {
    ep: Endpoint,
    docs: Docs,
    router: Router,
}

async fn make_node(seed: u8) -> anyhow::Result<Node> {
    let sk = SecretKey::from_bytes(&[seed; 32]);
    let ep = Endpoint::builder(presets::Minimal).secret_key(sk).relay_mode(RelayMode::Disabled).bind().await?;
    let gossip = Gossip::builder().spawn(ep.clone());
    let blobs = iroh_blobs::store::mem::MemStore::new();
    let blobs: iroh_blobs::api::Store = (*blobs).clone();
    let docs = Docs::memory().spawn(ep.clone(), blobs.clone(), gossip.clone()).await?;
    let router = Router::builder(ep.clone())
        .accept(iroh_blobs::ALPN, iroh_blobs::BlobsProtocol::new(&blobs, None))
        .accept(iroh_docs::ALPN, docs.clone())
        .accept(iroh_gossip::ALPN, gossip)
        .spawn();
    Ok(Node { ep, docs, router })
}

pub fn run(ctx: &mut Ctx) {
    let rt = crate::act::runtime(3);
    rt.block_on(async {
        let node = match make_node(0xA0 + (ctx.shard % 32) as u8).await {
            Ok(n) => n,
            Err(e) => {
                ctx.harness_error(format!("cannot create a docs node: {e:?}"));
                return;
            }
        };
        for case in ctx.cases(600, 400_000) {
            let mut rng = ctx.rng(case);
            let r = tokio::time::timeout(std::time::Duration::from_secs(120), one(ctx, case, &mut rng, &node)).await;
            iroh_docs::verif::set_clock(0);
            if r.is_err() {
                ctx.harness_error("api history did not finish within 120 s");
                break;
            }
            if !ctx.harness_errors.is_empty() {
                break;
            }
        }
        let _ = node.router.shutdown().await;
        node.ep.close().await;
    });
}

fn owner(tag: &str) -> &'static str {
    match tag {
        "cap" => "C07",
        "drop" => "C16",
        "events" => "C12",
        "policy" => "C15",
        _ => "C14",
    }
}

async fn dump(d: &Doc) -> anyhow::Result<Vec<String>> {
    let st = d.get_many(Query::all().include_empty()).await?;
    tokio::pin!(st);
    let mut out = vec![];
    while let Some(e) = st.next().await {
        let e = e?;
        out.push(E { author: e.author().to_bytes(), key: e.key().to_vec(), ts: e.timestamp(), hash: *e.content_hash().as_bytes(), len: e.content_len() }.short());
    }
    out.sort();
    Ok(out)
}

/// One history. Returns when it is over or at the first mismatch.
async fn one(ctx: &mut Ctx, case: u64, rng: &mut Rng, node: &Node) {
    let api = node.docs.api();
    let mk_secret = |i: u8| {
        let mut b = [0x5Au8; 32];
        b[..8].copy_from_slice(&case.to_le_bytes());
        b[8..16].copy_from_slice(&ctx.seed.to_le_bytes());
        b[16] = ctx.shard as u8;
        b[17] = i;
        NamespaceSecret::from_bytes(&b)
    };
    let unis = [Universe::with(mk_secret(0), 3), Universe::with(mk_secret(1), 3)];
    let t0 = unis[0].t0;
    let mut docs: Vec<DocM> = (0..2)
        .map(|i| DocM { secret: mk_secret(i), cap: Cap::None, handles: 0, sync: false, subs: 0, syncing: false, entries: Model::new(), held: vec![], closed: vec![], streams: vec![], zombies: 0, policy: None })
        .collect();
    // the three authors of the universe; which of them the node's store knows
    let mut known = [false; 3];
    for (i, a) in unis[0].authors.iter().enumerate() {
        if api.author_import(a.clone()).await.is_ok() {
            known[i] = true;
        }
    }
    let default_author = match api.author_default().await {
        Ok(a) => a,
        Err(e) => {
            ctx.harness_error(format!("author_default failed: {e:?}"));
            return;
        }
    };
    let n_steps = rng.range(8, 40);
    let mut trace: Vec<String> = vec![];
    let mut keys: Vec<Vec<u8>> = vec![];
    let mut refused = 0u32;
    let mut drops_ok = 0u32;
    let mut upgrades = 0u32;
    ctx.eval();
    let mut foreign = false;
    // a mismatch: reported when the clause belongs to the property of this run
    macro_rules! mismatch {
        ($tag:expr, $sig:expr, $detail:expr) => {{
            if owner($tag) == ctx.prop.as_str() {
                ctx.violation(case, &format!("api:{}", $sig), json!({"trace": trace, "detail": $detail, "after_a_mismatch_of_another_property": foreign}));
                cleanup(api, &mut docs).await;
                return;
            }
            // The clause belongs to another property (whose own run reports it). The history goes on
            // with the specification as it is: on the unchanged tree this never happens, and on a
            // changed tree the clauses of this run's property are still exercised afterwards.
            ctx.count("mismatches_belonging_to_another_property", 1);
            foreign = true;
            if std::env::var("VCHECK_TRACE").is_ok() {
                eprintln!("foreign mismatch [{}] {}: {} {:?}", owner($tag), $sig, json!($detail), trace);
            }
            continue;
        }};
    }
    for step in 0..n_steps {
        let di = rng.below(2);
        let uni = &unis[di];
        let id = docs[di].secret.id();
        let op = rng.below(100);
        // few timestamps: ties and going back are the norm
        let t = t0 + rng.below(8) as u64;
        iroh_docs::verif::set_clock(t);
        let have_handle = !docs[di].held.is_empty();
        let mut wrote = false;
        match op {
            // ---- import read-only / writable (import + open, returns a handle)
            0..=11 => {
                let write = rng.chance(1, 2);
                let cap = if write { Capability::Write(docs[di].secret.clone()) } else { Capability::Read(id) };
                trace.push(format!("{step}: doc{di} import_namespace({})", if write { "write" } else { "read" }));
                match api.import_namespace(cap).await {
                    Ok(d) => {
                        let m = &mut docs[di];
                        if write && m.cap == Cap::Read {
                            upgrades += 1;
                        }
                        m.cap = m.cap.max(if write { Cap::Write } else { Cap::Read });
                        m.open_one(false, false);
                        m.held.push(d);
                    }
                    Err(e) => mismatch!("cap", "import-refused", format!("{e:?}")),
                }
            }
            // ---- open by id
            12..=19 => {
                trace.push(format!("{step}: doc{di} open"));
                let r = api.open(id).await;
                let m = &mut docs[di];
                match (r, m.cap != Cap::None) {
                    (Ok(Some(d)), true) => {
                        m.open_one(false, false);
                        m.held.push(d);
                    }
                    (Err(_), false) | (Ok(None), false) => refused += 1,
                    (Ok(_), false) => mismatch!(if drops_ok > 0 { "drop" } else { "open" }, "open-of-a-document-the-node-does-not-have-succeeded", json!({})),
                    (r, true) => mismatch!("open", "open-of-a-held-document-failed", format!("{:?}", r.map(|_| ()))),
                }
            }
            // ---- close one client handle
            20..=29 if have_handle => {
                let m = &mut docs[di];
                let i = rng.below(m.held.len());
                let d = m.held.swap_remove(i);
                trace.push(format!("{step}: doc{di} close of one of {} client handles", m.held.len() + 1));
                if let Err(e) = d.close().await {
                    mismatch!("open", "close-failed", format!("{e:?}"));
                }
                docs[di].close_one();
                docs[di].closed.push(d);
            }
            // ---- a call through a handle that was closed: refused by the client, changes nothing
            30..=32 if !docs[di].closed.is_empty() => {
                let d = docs[di].closed[rng.below(docs[di].closed.len())].clone();
                trace.push(format!("{step}: doc{di} set_bytes through a closed handle"));
                if d.set_bytes(uni.authors[0].id(), b"zz".to_vec(), b"x".to_vec()).await.is_ok() {
                    mismatch!("open", "call-through-a-closed-handle-succeeded", json!({}));
                }
                refused += 1;
            }
            // ---- local write / deletion
            33..=59 if have_handle => {
                let d = docs[di].held[rng.below(docs[di].held.len())].clone();
                let a = rng.below(3);
                let k = gen_key(rng, &keys, 3);
                keys.push(k.clone());
                let m = &mut docs[di];
                let allowed = m.handles > 0 && m.cap == Cap::Write && known[a];
                if rng.chance(2, 3) {
                    let ci = rng.below(4);
                    let value = vec![b'c'; ci + 1];
                    let via_hash = rng.chance(1, 4);
                    trace.push(format!("{step}: doc{di} {} author{a} key {} content{ci} at T0+{}", if via_hash { "set_hash" } else { "set_bytes" }, hex::encode(&k), t - t0));
                    let r = if via_hash {
                        let (h, l) = content(ci);
                        d.set_hash(uni.authors[a].id(), k.clone(), h, l).await.map(|_| h)
                    } else {
                        d.set_bytes(uni.authors[a].id(), k.clone(), value).await
                    };
                    let want = if allowed { m.entries.offer(&uni.entry(a, &k, t, Some(ci))).is_some() } else { false };
                    match (&r, want) {
                        (Ok(h), true) => {
                            if *h != content(ci).0 {
                                mismatch!("reply", "set-returned-another-hash", json!({}));
                            }
                            let ev = E::of(&uni.entry(a, &k, t, Some(ci))).short();
                            for sub in m.streams.iter_mut().filter(|s| !s.frozen) {
                                sub.expected.push(ev.clone());
                            }
                            wrote = true;
                        }
                        (Err(_), false) => refused += 1,
                        (Ok(_), false) => mismatch!(if m.cap != Cap::Write { "cap" } else { "reply" }, if m.cap != Cap::Write { "write-accepted-without-write-capability" } else { "write-accepted-that-the-specification-refuses" }, json!({"handles": m.handles, "author_known": known[a]})),
                        (Err(e), true) => mismatch!(if upgrades > 0 && m.cap == Cap::Write { "cap" } else { "reply" }, "write-refused-that-the-specification-accepts", format!("{e:?}")),
                    }
                } else {
                    trace.push(format!("{step}: doc{di} del author{a} prefix {} at T0+{}", hex::encode(&k), t - t0));
                    let r = d.del(uni.authors[a].id(), k.clone()).await;
                    let want = if allowed { m.entries.offer(&uni.entry(a, &k, t, None)) } else { None };
                    match (&r, want) {
                        (Ok(n), Some(w)) if *n == w => {
                            let ev = E::of(&uni.entry(a, &k, t, None)).short();
                            for sub in m.streams.iter_mut().filter(|s| !s.frozen) {
                                sub.expected.push(ev.clone());
                            }
                            wrote = true;
                        }
                        (Err(_), None) => refused += 1,
                        (Ok(n), Some(w)) => mismatch!("reply", "del-reports-another-count", json!({"got": n, "want": w})),
                        (Ok(_), None) => mismatch!(if m.cap != Cap::Write { "cap" } else { "reply" }, if m.cap != Cap::Write { "deletion-accepted-without-write-capability" } else { "deletion-accepted-that-the-specification-refuses" }, json!({})),
                        (Err(e), Some(_)) => mismatch!("reply", "deletion-refused-that-the-specification-accepts", format!("{e:?}")),
                    }
                }
            }
            // ---- start_sync / share / leave
            60..=67 if have_handle => {
                let d = docs[di].held[0].clone();
                let m = &mut docs[di];
                let kind = rng.below(3);
                trace.push(format!("{step}: doc{di} {}", ["start_sync", "share(read)", "share(write)"][kind]));
                let r = match kind {
                    0 => d.start_sync(vec![]).await.map(|_| None),
                    1 => d.share(ShareMode::Read, AddrInfoOptions::Id).await.map(Some),
                    _ => d.share(ShareMode::Write, AddrInfoOptions::Id).await.map(Some),
                };
                let export_ok = m.handles > 0 && m.cap == Cap::Write;
                let want_ok = if kind == 2 { export_ok } else { m.syncing || m.cap != Cap::None };
                match (&r, want_ok) {
                    (Ok(ticket), true) => {
                        if !m.syncing {
                            m.open_one(true, true);
                            m.syncing = true;
                        }
                        if let Some(t) = ticket {
                            let good = match (&t.capability, kind) {
                                (Capability::Read(i), 1) => *i == id,
                                (Capability::Write(s), 2) => s.to_bytes() == m.secret.to_bytes(),
                                _ => false,
                            };
                            if !good || t.nodes.len() != 1 || t.nodes[0].id != node.ep.id() {
                                mismatch!("cap", "ticket-does-not-carry-the-requested-capability-and-this-node", json!({"kind": kind}));
                            }
                        }
                    }
                    (Err(_), false) => refused += 1,
                    (Ok(_), false) => mismatch!("cap", "write-ticket-handed-out-without-write-capability", json!({"cap": format!("{:?}", m.cap), "handles": m.handles})),
                    (Err(e), true) => mismatch!(if kind == 2 { "cap" } else { "sync" }, "start-sync-or-share-refused", format!("{e:?}")),
                }
            }
            68..=72 if have_handle => {
                let d = docs[di].held[0].clone();
                trace.push(format!("{step}: doc{di} leave"));
                let r = d.leave().await;
                let m = &mut docs[di];
                if let Err(e) = r {
                    mismatch!("sync", "leave-failed", format!("{e:?}"));
                }
                if m.syncing {
                    m.syncing = false;
                    if m.handles > 0 {
                        m.sync = false;
                        m.subs = m.subs.saturating_sub(1);
                    }
                    m.close_one();
                }
            }
            // ---- subscribe (the stream is kept to the end of the history)
            73..=78 if have_handle => {
                let d = docs[di].held[0].clone();
                trace.push(format!("{step}: doc{di} subscribe"));
                let r = d.subscribe().await;
                let m = &mut docs[di];
                match (r, m.handles > 0) {
                    (Ok(s), true) => {
                        m.subs += 1;
                        m.streams.push(spawn_sub(s));
                    }
                    (Err(_), false) => refused += 1,
                    (Ok(s), false) => {
                        // a subscription is a stream of replies: the refusal is its first item
                        let mut s = Box::pin(s);
                        match tokio::time::timeout(std::time::Duration::from_secs(20), s.next()).await {
                            Ok(Some(Err(_))) => refused += 1,
                            Ok(other) => mismatch!("open", "subscribe-to-a-document-that-is-not-open-succeeded", format!("first item: {:?}", other.map(|x| x.map(|_| "an event")))),
                            Err(_) => {
                                ctx.harness_error("no first item on the subscription of a document that is not open within 20 s");
                                cleanup(api, &mut docs).await;
                                return;
                            }
                        }
                    }
                    (Err(e), true) => mismatch!("open", "subscribe-refused", format!("{e:?}")),
                }
            }
            // ---- drop the document
            79..=83 => {
                trace.push(format!("{step}: doc{di} drop_doc (actor handles {}, syncing {})", docs[di].handles, docs[di].syncing));
                let before = if docs[di].handles > 1 + docs[di].syncing as usize && have_handle { dump(&docs[di].held[0]).await.ok() } else { None };
                let r = api.drop_doc(id).await;
                let m = &mut docs[di];
                m.zombies += m.streams.len();
                // the streams end here (kill_subscribers); what arrived on each is a prefix of the
                // writes accepted since it began: no event twice, none out of order, none foreign
                let subs: Vec<Sub> = m.streams.drain(..).collect();
                let mut bad = None;
                for sub in subs {
                    if sub.frozen {
                        sub.task.abort();
                    } else if tokio::time::timeout(std::time::Duration::from_secs(20), sub.task).await.is_err() {
                        ctx.count("event_streams_that_did_not_end_after_drop_doc(not judged)", 1);
                        continue;
                    }
                    let got = sub.got.lock().unwrap().clone();
                    ctx.count("event_streams_compared_with_the_accepted_writes", 1);
                    ctx.count("client_events_seen", got.len() as u64);
                    if got.len() > sub.expected.len() || got[..] != sub.expected[..got.len()] {
                        bad = Some((got, sub.expected));
                    }
                }
                if let Some((got, want)) = bad {
                    mismatch!("events", "events-of-a-subscription-are-not-the-accepted-writes-in-order", json!({"got": got, "accepted_writes_since_the_subscription": want}));
                }
                // the engine leaves first (live handle released, live subscribers dropped), then the
                // actor releases one handle and refuses if the document is still open
                if m.syncing {
                    m.syncing = false;
                    if m.handles > 0 {
                        m.sync = false;
                        m.subs = m.subs.saturating_sub(1);
                    }
                    m.close_one();
                }
                m.close_one();
                let want_ok = m.handles == 0;
                match (&r, want_ok) {
                    (Ok(_), true) => {
                        drops_ok += (m.cap != Cap::None) as u32;
                        m.cap = Cap::None;
                        m.entries = Model::new();
                        m.policy = None;
                        // every handle of the old document is stale now; they stay usable objects and
                        // come back to life with a re-import, like any handle of a closed document
                    }
                    (Err(_), false) => {
                        refused += 1;
                        // the statement leaves the handle count after a refused drop open: read it back
                        match m.held.first() {
                            Some(d) => match d.status().await {
                                Ok(st) => {
                                    m.handles = st.handles;
                                    m.sync = st.sync;
                                    if st.subscribers <= m.subs {
                                        m.zombies = m.zombies.saturating_sub(m.subs - st.subscribers);
                                        m.subs = st.subscribers;
                                    }
                                }
                                Err(_) => {
                                    m.handles = 0;
                                    m.sync = false;
                                    m.subs = 0;
                                }
                            },
                            None => {}
                        }
                        if let (Some(b), Some(d)) = (before, m.held.first()) {
                            if m.handles > 0 {
                                match dump(d).await {
                                    Ok(a) if a == b => ctx.count("refused_drops_that_left_the_content_alone", 1),
                                    other => mismatch!("drop", "refused-drop-changed-the-document", format!("{other:?}")),
                                }
                            }
                        }
                    }
                    (Ok(_), false) => mismatch!("drop", "drop-succeeded-while-another-handle-holds-the-document", json!({"handles_left": m.handles})),
                    (Err(e), true) => mismatch!("drop", "drop-refused-although-no-other-handle-holds-the-document", format!("{e:?}")),
                }
            }
            // ---- authors of the store: delete / import
            84..=89 => {
                let a = rng.below(3);
                let aid = unis[0].authors[a].id();
                if known[a] && rng.chance(1, 2) {
                    trace.push(format!("{step}: author_delete author{a}"));
                    match api.author_delete(aid).await {
                        Ok(()) => known[a] = false,
                        Err(e) => mismatch!("reply", "author-delete-failed", format!("{e:?}")),
                    }
                } else {
                    trace.push(format!("{step}: author_import author{a}"));
                    match api.author_import(unis[0].authors[a].clone()).await {
                        Ok(()) => known[a] = true,
                        Err(e) => mismatch!("reply", "author-import-failed", format!("{e:?}")),
                    }
                }
                if rng.chance(1, 3) {
                    trace.push(format!("{step}: author_delete of the default author"));
                    if api.author_delete(default_author).await.is_ok() {
                        mismatch!("reply", "default-author-deleted", json!({}));
                    }
                    refused += 1;
                }
                for (i, au) in unis[0].authors.iter().enumerate() {
                    match api.author_export(au.id()).await {
                        Ok(x) if x.is_some() == known[i] => {}
                        other => mismatch!("reply", "author-export-differs-from-the-authors-imported-and-deleted", format!("author{i}: {:?} want {}", other.map(|x| x.is_some()), known[i])),
                    }
                }
            }
            // ---- download policy through a handle
            93 | 94 if have_handle => {
                use iroh_docs::store::{DownloadPolicy, FilterKind};
                let d = docs[di].held[0].clone();
                let m = &mut docs[di];
                if rng.chance(1, 2) {
                    let f: Vec<FilterKind> = (0..rng.below(3)).map(|i| if rng.chance(1, 2) { FilterKind::Prefix(vec![b'a' + i as u8].into()) } else { FilterKind::Exact(vec![0xFF, i as u8].into()) }).collect();
                    let p = if rng.chance(1, 2) { DownloadPolicy::NothingExcept(f) } else { DownloadPolicy::EverythingExcept(f) };
                    trace.push(format!("{step}: doc{di} set_download_policy {p:?}"));
                    match (d.set_download_policy(p.clone()).await, m.cap != Cap::None) {
                        (Ok(()), true) => m.policy = Some(p),
                        (Err(_), false) => refused += 1,
                        (Ok(()), false) => mismatch!("policy", "policy-set-for-a-document-the-node-does-not-have", json!({})),
                        (Err(e), true) => mismatch!("policy", "policy-set-refused-for-a-held-document", format!("{e:?}")),
                    }
                } else if m.cap != Cap::None {
                    trace.push(format!("{step}: doc{di} get_download_policy"));
                    match d.get_download_policy().await {
                        Ok(p) if p == m.policy.clone().unwrap_or_default() => ctx.count("policies_read_back", 1),
                        other => mismatch!("policy", "policy-read-differs-from-the-last-one-set", json!({"got": format!("{other:?}"), "want": format!("{:?}", m.policy)})),
                    }
                }
            }
            // ---- list the documents
            90..=94 => {
                trace.push(format!("{step}: list"));
                let mut got: BTreeMap<[u8; 32], CapabilityKind> = BTreeMap::new();
                match api.list().await {
                    Ok(mut st) => {
                        while let Some(x) = st.next().await {
                            match x {
                                Ok((i, k)) => {
                                    got.insert(i.to_bytes(), k);
                                }
                                Err(e) => mismatch!("reply", "list-failed", format!("{e:?}")),
                            }
                        }
                    }
                    Err(e) => mismatch!("reply", "list-failed", format!("{e:?}")),
                }
                for m in docs.iter() {
                    let g = got.get(&m.secret.id().to_bytes());
                    let ok = match (m.cap, g) {
                        (Cap::None, None) => true,
                        (Cap::Read, Some(CapabilityKind::Read)) => true,
                        (Cap::Write, Some(CapabilityKind::Write)) => true,
                        _ => false,
                    };
                    if !ok {
                        mismatch!(if m.cap == Cap::None { "drop" } else { "cap" }, "list-differs-from-the-capabilities-imported", json!({"want": format!("{:?}", m.cap), "got": format!("{g:?}")}));
                    }
                }
            }
            // ---- exact lookup
            _ if have_handle => {
                let d = docs[di].held[rng.below(docs[di].held.len())].clone();
                let a = rng.below(3);
                let k = if keys.is_empty() { vec![] } else { rng.pick(&keys).clone() };
                trace.push(format!("{step}: doc{di} get_exact author{a} key {}", hex::encode(&k)));
                let r = d.get_exact(uni.authors[a].id(), k.clone(), true).await;
                let m = &docs[di];
                let want = m.entries.map.get(&(uni.authors[a].id().to_bytes(), k.clone())).map(|e| E::of(e).short());
                match (r, m.handles > 0) {
                    (Ok(e), true) => {
                        let got = e.map(|e| E { author: e.author().to_bytes(), key: e.key().to_vec(), ts: e.timestamp(), hash: *e.content_hash().as_bytes(), len: e.content_len() }.short());
                        if got != want {
                            mismatch!("reply", "get-exact-differs-from-the-specification", json!({"got": got, "want": want}));
                        }
                    }
                    (Err(_), false) => refused += 1,
                    (Ok(_), false) => mismatch!(if drops_ok > 0 && m.cap == Cap::None { "drop" } else { "open" }, "read-of-a-document-that-is-not-open-succeeded", json!({})),
                    (Err(e), true) => mismatch!("open", "read-of-an-open-document-failed", format!("{e:?}")),
                }
            }
            _ => {
                trace.push(format!("{step}: (no handle of doc{di} held: nothing done)"));
            }
        }
        // Now and then, behind an accepted write: its event has arrived on every subscription of the
        // document, and with it, in order, exactly the events of the writes accepted before it.
        if wrote && rng.chance(1, 3) {
            let mut bad = None;
            for sub in docs[di].streams.iter().filter(|s| !s.frozen) {
                match fence(sub).await {
                    Some(Ok(())) => ctx.count("subscriptions_checked_behind_a_write", 1),
                    Some(Err(x)) => bad = Some(x),
                    None => ctx.count("event_of_the_last_write_not_seen_within_20s(inconclusive)", 1),
                }
            }
            if let Some((got, want)) = bad {
                mismatch!("events", "events-of-a-subscription-are-not-the-accepted-writes-in-order", json!({"got": got, "accepted_writes_since_the_subscription": want}));
            }
        }
        // A refused drop has taken a handle (what the count is afterwards the statement leaves open); if
        // the client then closes all of its own, the replica is closed under the live actor, which
        // still believes it syncs the document. What calls do in that state is not specified by any
        // property: the history ends here, counted.
        if docs.iter().any(|m| m.syncing && m.handles == 0) {
            ctx.count("histories_ended_in_the_unspecified_state_after_a_refused_drop", 1);
            cleanup(api, &mut docs).await;
            return;
        }
        // ---- after every step: status of both documents through a live handle
        for (i, m) in docs.iter_mut().enumerate() {
            let Some(d) = m.held.first() else { continue };
            match (d.status().await, m.handles > 0) {
                (Ok(st), true) => {
                    if st.subscribers < m.subs && m.subs - st.subscribers <= m.zombies {
                        // subscribers whose streams a drop_doc ended have been forgotten meanwhile
                        m.zombies -= m.subs - st.subscribers;
                        m.subs = st.subscribers;
                    }
                    if st.handles != m.handles || st.sync != m.sync || st.subscribers != m.subs {
                        let what = if st.handles != m.handles { "handles" } else if st.sync != m.sync { "sync-switch" } else { "subscribers" };
                        mismatch!("open", format!("status-differs:{what}"), json!({"doc": i, "got": format!("{st:?}"), "want": {"handles": m.handles, "sync": m.sync, "subscribers": m.subs}}));
                    }
                }
                (Err(_), false) => {}
                (Ok(st), false) => mismatch!(if m.cap == Cap::None && drops_ok > 0 { "drop" } else { "open" }, "status-of-a-document-that-is-not-open", json!({"doc": i, "got": format!("{st:?}")})),
                (Err(e), true) => mismatch!("open", "status-of-an-open-document-failed", format!("doc{i}: {e:?}")),
            }
        }
        // ---- now and then (a read commits the write batch): the whole content
        if rng.chance(1, 4) || step + 1 == n_steps {
            for (i, m) in docs.iter().enumerate() {
                let Some(d) = m.held.first() else { continue };
                if m.handles == 0 {
                    continue;
                }
                match dump(d).await {
                    Ok(got) => {
                        let mut want = m.entries.short();
                        want.sort();
                        if got != want {
                            let tag = if m.entries.map.is_empty() && drops_ok > 0 { "drop" } else { "reply" };
                            mismatch!(tag, "content-differs-from-the-specification", json!({"doc": i, "got": got, "want": want}));
                        }
                    }
                    Err(e) => mismatch!("open", "read-of-an-open-document-failed", format!("doc{i}: {e:?}")),
                }
            }
        }
    }
    ctx.count("api_steps", n_steps as u64);
    ctx.count("calls_refused_as_specified", refused as u64);
    ctx.count("documents_dropped", drops_ok as u64);
    ctx.count("capability_upgrades", upgrades as u64);
    if refused > 0 && (drops_ok > 0 || upgrades > 0) {
        ctx.nontrivial(h64(trace.join("|").as_bytes()));
    }
    ctx.distinct("histories", h64(trace.join("|").as_bytes()));
    if ctx.want_sample() {
        ctx.sample(json!({"case": case, "mode": "api", "trace": trace}));
    }
    cleanup(api, &mut docs).await;
}

/// Leave the node as it was found: no handle of this history's documents open, documents gone.
async fn cleanup(api: &iroh_docs::api::DocsApi, docs: &mut [DocM]) {
    for m in docs.iter_mut() {
        for sub in m.streams.drain(..) {
            sub.task.abort();
        }
        if let Some(d) = m.held.first() {
            let _ = d.leave().await;
        }
        for d in m.held.drain(..) {
            let _ = d.close().await;
        }
        m.closed.clear();
        let _ = api.drop_doc(m.secret.id()).await;
    }
}
