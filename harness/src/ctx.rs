//! Per-shard run context: budgets, counters, distinct sets, samples, violations, report file.

use std::{
    collections::{BTreeMap, HashSet},
    time::{Duration, Instant},
};

use serde_json::{json, Value};

use crate::rng::Rng;

/// Case currently being executed (for attributing a panic to a replayable case).
pub static CURRENT_CASE: std::sync::atomic::AtomicU64 = std::sync::atomic::AtomicU64::new(0);

#[derive(Clone, Copy, PartialEq, Eq, Debug)]
pub enum Tier {
    Quick,
    Thorough,
}

pub struct Ctx {
    pub prop: String,
    pub tier: Tier,
    pub seed: u64,
    pub shard: u64,
    pub nshards: u64,
    pub only_case: Option<u64>,
    pub mode: Option<String>,
    pub start: Instant,
    pub budget: Duration,
    pub evaluations: u64,
    nontrivial: HashSet<u64>,
    pub samples: Vec<Value>,
    pub violations: Vec<Value>,
    pub counters: BTreeMap<String, u64>,
    sets: BTreeMap<String, HashSet<u64>>,
    pub notes: Vec<String>,
    pub harness_errors: Vec<String>,
    max_samples: usize,
    max_violations: usize,
}

impl Ctx {
    pub fn new(prop: &str, tier: Tier, seed: u64, shard: u64, nshards: u64) -> Self {
        let secs = std::env::var("VCHECK_BUDGET_S")
            .ok()
            .and_then(|s| s.parse::<u64>().ok())
            .unwrap_or(match tier {
                Tier::Quick => 25,
                Tier::Thorough => 300,
            });
        Ctx {
            prop: prop.to_string(),
            tier,
            seed,
            shard,
            nshards,
            only_case: None,
            mode: None,
            start: Instant::now(),
            budget: Duration::from_secs(secs),
            evaluations: 0,
            nontrivial: HashSet::new(),
            samples: vec![],
            violations: vec![],
            counters: BTreeMap::new(),
            sets: BTreeMap::new(),
            notes: vec![],
            harness_errors: vec![],
            max_samples: 3,
            max_violations: 8,
        }
    }

    /// RNG for one case: depends on seed, shard and case only (replayable).
    pub fn rng(&self, case: u64) -> Rng {
        Rng::from_parts(&[self.seed, self.shard, self.nshards, case, h_str(&self.prop)])
    }
    pub fn rng_stream(&self, case: u64, stream: u64) -> Rng {
        Rng::from_parts(&[
            self.seed,
            self.shard,
            self.nshards,
            case,
            h_str(&self.prop),
            stream,
        ])
    }

    /// Iterate case indices: a single one under replay, otherwise 0.. until the budget
    /// (`max` cases or the time budget) is used up.
    pub fn cases(&self, max_quick: u64, max_thorough: u64) -> CaseIter {
        let max = match self.tier {
            Tier::Quick => max_quick,
            Tier::Thorough => max_thorough,
        };
        CaseIter {
            next: 0,
            max,
            only: self.only_case,
            done_only: false,
            start: self.start,
            budget: self.budget,
        }
    }

    pub fn out_of_time(&self) -> bool {
        self.start.elapsed() > self.budget
    }
    pub fn is_quick(&self) -> bool {
        self.tier == Tier::Quick
    }

    pub fn eval(&mut self) {
        self.evaluations += 1;
    }
    pub fn evals(&mut self, n: u64) {
        self.evaluations += n;
    }
    /// Register a non-trivial case by the hash of what makes it distinct.
    pub fn nontrivial(&mut self, h: u64) {
        self.nontrivial.insert(h);
    }
    pub fn count(&mut self, name: &str, n: u64) {
        *self.counters.entry(name.to_string()).or_insert(0) += n;
    }
    pub fn distinct(&mut self, set: &str, h: u64) {
        self.sets.entry(set.to_string()).or_default().insert(h);
    }
    pub fn sample(&mut self, v: Value) {
        if self.samples.len() < self.max_samples {
            self.samples.push(v);
        }
    }
    pub fn want_sample(&self) -> bool {
        self.samples.len() < self.max_samples
    }
    pub fn note(&mut self, s: impl Into<String>) {
        let s = s.into();
        if self.notes.len() < 20 && !self.notes.contains(&s) {
            self.notes.push(s);
        }
    }
    /// A violation witness. `signature` classifies it (known-findings are keyed on it).
    pub fn violation(&mut self, case: u64, signature: &str, detail: Value) {
        self.count(&format!("violations[{signature}]"), 1);
        // keep at most one witness per signature plus a few more
        let same = self
            .violations
            .iter()
            .filter(|v| v["signature"] == signature)
            .count();
        if same >= 2 || self.violations.len() >= self.max_violations {
            return;
        }
        self.violations.push(json!({
            "property": self.prop,
            "signature": signature,
            "seed": self.seed,
            "shard": self.shard,
            "nshards": self.nshards,
            "case": case,
            "mode": self.mode,
            "tier": match self.tier { Tier::Quick => "quick", Tier::Thorough => "thorough" },
            "detail": detail,
        }));
    }
    pub fn harness_error(&mut self, msg: impl Into<String>) {
        let msg = msg.into();
        if self.harness_errors.len() < 10 {
            self.harness_errors.push(msg);
        }
    }

    pub fn report(&self) -> Value {
        let sets: BTreeMap<String, Vec<u64>> = self
            .sets
            .iter()
            .map(|(k, v)| (k.clone(), v.iter().copied().collect()))
            .collect();
        json!({
            "property": self.prop,
            "shard": self.shard,
            "nshards": self.nshards,
            "seed": self.seed,
            "mode": self.mode,
            "evaluations": self.evaluations.max(self.nontrivial.len() as u64),
            "nontrivial": self.nontrivial.iter().copied().collect::<Vec<u64>>(),
            "samples": self.samples,
            "violations": self.violations,
            "counters": self.counters,
            "sets": sets,
            "notes": self.notes,
            "harness_errors": self.harness_errors,
            "wall_s": self.start.elapsed().as_secs_f64(),
        })
    }
}

pub struct CaseIter {
    next: u64,
    max: u64,
    only: Option<u64>,
    done_only: bool,
    start: Instant,
    budget: Duration,
}

impl Iterator for CaseIter {
    type Item = u64;
    fn next(&mut self) -> Option<u64> {
        if let Some(c) = self.only {
            if self.done_only {
                return None;
            }
            self.done_only = true;
            CURRENT_CASE.store(c, std::sync::atomic::Ordering::SeqCst);
            return Some(c);
        }
        if self.next >= self.max || self.start.elapsed() > self.budget {
            return None;
        }
        let c = self.next;
        self.next += 1;
        if std::env::var("VCHECK_TRACE").is_ok() {
            eprintln!("case {c}");
        }
        CURRENT_CASE.store(c, std::sync::atomic::Ordering::SeqCst);
        Some(c)
    }
}

pub fn h_str(s: &str) -> u64 {
    crate::rng::h64(s.as_bytes())
}
