//! Hostile generators shared by the monitors (DESIGN §3).

use iroh_blobs::Hash;
use iroh_docs::{Author, NamespaceSecret, Record, SignedEntry};

use crate::rng::Rng;

pub const ALPHABET: [u8; 6] = [0x00, 0x01, 0x61, 0x62, 0xFE, 0xFF];

/// `T0`: one hour before the real clock (microseconds), rounded to seconds so samples read well.
pub fn t0() -> u64 {
    let now = std::time::SystemTime::now()
        .duration_since(std::time::UNIX_EPOCH)
        .unwrap()
        .as_micros() as u64;
    (now - 3_600_000_000) / 1_000_000 * 1_000_000
}

pub fn author(i: u8) -> Author {
    let mut b = [0x11u8; 32];
    b[0] = i;
    b[31] = i.wrapping_mul(37);
    Author::from_bytes(&b)
}

pub fn namespace(i: u8) -> NamespaceSecret {
    let mut b = [0x77u8; 32];
    b[0] = i;
    b[5] = i.wrapping_mul(11);
    NamespaceSecret::from_bytes(&b)
}

/// Search namespace secrets whose public id ends with byte `last` (≈256 tries).
pub fn namespace_ending_in(last: u8, salt: u8) -> NamespaceSecret {
    let mut b = [0x33u8; 32];
    b[1] = salt;
    for i in 0u32..1_000_000 {
        b[28..32].copy_from_slice(&i.to_le_bytes());
        let s = NamespaceSecret::from_bytes(&b);
        if s.id().as_bytes()[31] == last {
            return s;
        }
    }
    unreachable!("no key found")
}

pub fn content(i: usize) -> (Hash, u64) {
    let data = vec![b'c'; i + 1];
    (Hash::new(&data), (i + 1) as u64)
}

pub fn unique_content(n: u64) -> (Hash, u64) {
    let data = format!("unique-{n}");
    (Hash::new(data.as_bytes()), data.len() as u64)
}

pub fn prefix_successor(k: &[u8]) -> Option<Vec<u8>> {
    let mut k = k.to_vec();
    while let Some(&l) = k.last() {
        if l == 0xFF {
            k.pop();
        } else {
            *k.last_mut().unwrap() += 1;
            return Some(k);
        }
    }
    None
}

/// A key: fresh over the alphabet or derived from an existing one (extend / truncate / successor).
pub fn key(rng: &mut Rng, existing: &[Vec<u8>], max_len: usize) -> Vec<u8> {
    if !existing.is_empty() && rng.chance(1, 2) {
        let base = rng.pick(existing).clone();
        match rng.below(5) {
            0 if base.len() < max_len => {
                let mut k = base;
                k.push(*rng.pick(&ALPHABET));
                k
            }
            1 if !base.is_empty() => base[..rng.below(base.len())].to_vec(),
            2 => prefix_successor(&base).unwrap_or(base),
            3 if base.len() < max_len => {
                let mut k = base;
                k.push(0xFF);
                k
            }
            _ => base,
        }
    } else if rng.chance(1, 10) {
        vec![]
    } else {
        let len = rng.range(0, max_len);
        (0..len).map(|_| *rng.pick(&ALPHABET)).collect()
    }
}

pub struct Universe {
    pub ns: NamespaceSecret,
    pub authors: Vec<Author>,
    pub t0: u64,
}

impl Universe {
    pub fn new(rng: &mut Rng, ns_index: u8) -> Self {
        let n = rng.range(2, 4);
        Universe {
            ns: namespace(ns_index),
            authors: (0..n as u8).map(author).collect(),
            t0: t0(),
        }
    }
    pub fn with(ns: NamespaceSecret, n_authors: usize) -> Self {
        Universe {
            ns,
            authors: (0..n_authors as u8).map(author).collect(),
            t0: t0(),
        }
    }
    pub fn entry(&self, author: usize, key: &[u8], ts: u64, content_idx: Option<usize>) -> SignedEntry {
        let record = match content_idx {
            None => Record::empty(ts),
            Some(i) => {
                let (h, l) = content(i);
                Record::new(h, l, ts)
            }
        };
        SignedEntry::from_parts(&self.ns, &self.authors[author], key, record)
    }
    /// A multiset of `n` signed entries with dense prefix relations, few timestamps, markers.
    pub fn entries(&self, rng: &mut Rng, n: usize, max_key: usize) -> Vec<SignedEntry> {
        let mut keys: Vec<Vec<u8>> = vec![];
        let mut out = vec![];
        for _ in 0..n {
            let k = key(rng, &keys, max_key);
            keys.push(k.clone());
            let a = rng.below(self.authors.len());
            // mostly T0+0..7; now and then the very first timestamps (0, 1): a stored value of zero
            // must not be mistaken for "nothing stored"
            let ts = if rng.chance(1, 14) { rng.below(2) as u64 } else { self.t0 + rng.below(8) as u64 };
            let c = if rng.chance(3, 10) {
                None
            } else {
                Some(rng.below(4))
            };
            out.push(self.entry(a, &k, ts, c));
        }
        out
    }
}
