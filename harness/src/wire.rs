//! Hand-written postcard encoders for the wire types (independent of the crate's derives), used
//! to craft arbitrary — also malformed — entries and messages and to pin the encodings.

use iroh_docs::{sync::ProtocolMessage, ContentStatus, SignedEntry};

pub fn varint(mut v: u64, out: &mut Vec<u8>) {
    loop {
        let b = (v & 0x7f) as u8;
        v >>= 7;
        if v == 0 {
            out.push(b);
            return;
        }
        out.push(b | 0x80);
    }
}

/// Plain parts of a signed entry.
#[derive(Clone, Debug, PartialEq, Eq)]
pub struct RawEntry {
    pub author_sig: [u8; 64],
    pub namespace_sig: [u8; 64],
    pub id: Vec<u8>, // namespace(32) ++ author(32) ++ key — but any length can be encoded
    pub len: u64,
    pub hash: [u8; 32],
    pub ts: u64,
}

impl RawEntry {
    pub fn of(e: &SignedEntry) -> RawEntry {
        let bytes = postcard::to_stdvec(e).unwrap();
        RawEntry::decode(&bytes).expect("own encoding").0
    }
    pub fn encode(&self, out: &mut Vec<u8>) {
        out.extend_from_slice(&self.author_sig);
        out.extend_from_slice(&self.namespace_sig);
        varint(self.id.len() as u64, out);
        out.extend_from_slice(&self.id);
        varint(self.len, out);
        out.extend_from_slice(&self.hash);
        varint(self.ts, out);
    }
    pub fn to_bytes(&self) -> Vec<u8> {
        let mut v = vec![];
        self.encode(&mut v);
        v
    }
    pub fn decode(b: &[u8]) -> Option<(RawEntry, usize)> {
        let mut p = 0;
        let take = |p: &mut usize, n: usize| -> Option<&[u8]> {
            let s = b.get(*p..*p + n)?;
            *p += n;
            Some(s)
        };
        let author_sig: [u8; 64] = take(&mut p, 64)?.try_into().ok()?;
        let namespace_sig: [u8; 64] = take(&mut p, 64)?.try_into().ok()?;
        let n = read_varint(b, &mut p)? as usize;
        let id = take(&mut p, n)?.to_vec();
        let len = read_varint(b, &mut p)?;
        let hash: [u8; 32] = take(&mut p, 32)?.try_into().ok()?;
        let ts = read_varint(b, &mut p)?;
        Some((RawEntry { author_sig, namespace_sig, id, len, hash, ts }, p))
    }
    /// the bytes that are signed: id ++ len(be) ++ hash ++ timestamp(be)
    pub fn signed_bytes(&self) -> Vec<u8> {
        let mut v = self.id.clone();
        v.extend_from_slice(&self.len.to_be_bytes());
        v.extend_from_slice(&self.hash);
        v.extend_from_slice(&self.ts.to_be_bytes());
        v
    }
    /// Sign the current content correctly with the given keys.
    pub fn sign(&mut self, ns: &iroh_docs::NamespaceSecret, author: &iroh_docs::Author) {
        let m = self.signed_bytes();
        self.namespace_sig = ns.sign(&m).to_bytes();
        self.author_sig = author.sign(&m).to_bytes();
    }
    /// change the key a little (keeps the identifier well-formed)
    pub fn key_tweak(&mut self) {
        if self.id.len() > 64 {
            let l = self.id.len() - 1;
            self.id[l] ^= 1;
        } else {
            self.id.push(0x62);
        }
    }
    pub fn into_entry(&self) -> Result<SignedEntry, postcard::Error> {
        postcard::from_bytes(&self.to_bytes())
    }
}

pub fn read_varint(b: &[u8], p: &mut usize) -> Option<u64> {
    let mut v = 0u64;
    let mut shift = 0;
    loop {
        let x = *b.get(*p)?;
        *p += 1;
        v |= ((x & 0x7f) as u64) << shift;
        if x & 0x80 == 0 {
            return Some(v);
        }
        shift += 7;
        if shift > 63 {
            return None;
        }
    }
}

#[derive(Clone, Debug, PartialEq, Eq)]
pub enum RawPart {
    Fingerprint { x: Vec<u8>, y: Vec<u8>, fp: [u8; 32] },
    Item { x: Vec<u8>, y: Vec<u8>, values: Vec<(RawEntry, u8)>, have_local: bool },
}

pub fn status_code(s: ContentStatus) -> u8 {
    match s {
        ContentStatus::Complete => 0,
        ContentStatus::Incomplete => 1,
        ContentStatus::Missing => 2,
    }
}

#[derive(Clone, Debug, PartialEq, Eq)]
pub struct RawMessage {
    pub parts: Vec<RawPart>,
}

impl RawMessage {
    pub fn encode(&self, out: &mut Vec<u8>) {
        varint(self.parts.len() as u64, out);
        for p in &self.parts {
            match p {
                RawPart::Fingerprint { x, y, fp } => {
                    varint(0, out);
                    varint(x.len() as u64, out);
                    out.extend_from_slice(x);
                    varint(y.len() as u64, out);
                    out.extend_from_slice(y);
                    out.extend_from_slice(fp);
                }
                RawPart::Item { x, y, values, have_local } => {
                    varint(1, out);
                    varint(x.len() as u64, out);
                    out.extend_from_slice(x);
                    varint(y.len() as u64, out);
                    out.extend_from_slice(y);
                    varint(values.len() as u64, out);
                    for (e, st) in values {
                        e.encode(out);
                        varint(*st as u64, out);
                    }
                    out.push(*have_local as u8);
                }
            }
        }
    }
    pub fn to_bytes(&self) -> Vec<u8> {
        let mut v = vec![];
        self.encode(&mut v);
        v
    }
    pub fn into_message(&self) -> Result<ProtocolMessage, postcard::Error> {
        postcard::from_bytes(&self.to_bytes())
    }
    pub fn decode(b: &[u8]) -> Option<RawMessage> {
        let mut p = 0;
        let n = read_varint(b, &mut p)?;
        let mut parts = vec![];
        for _ in 0..n {
            let tag = read_varint(b, &mut p)?;
            let lx = read_varint(b, &mut p)? as usize;
            let x = b.get(p..p + lx)?.to_vec();
            p += lx;
            let ly = read_varint(b, &mut p)? as usize;
            let y = b.get(p..p + ly)?.to_vec();
            p += ly;
            match tag {
                0 => {
                    let fp: [u8; 32] = b.get(p..p + 32)?.try_into().ok()?;
                    p += 32;
                    parts.push(RawPart::Fingerprint { x, y, fp });
                }
                1 => {
                    let nv = read_varint(b, &mut p)?;
                    let mut values = vec![];
                    for _ in 0..nv {
                        let (e, used) = RawEntry::decode(&b[p..])?;
                        p += used;
                        let st = read_varint(b, &mut p)? as u8;
                        values.push((e, st));
                    }
                    let have_local = *b.get(p)? != 0;
                    p += 1;
                    parts.push(RawPart::Item { x, y, values, have_local });
                }
                _ => return None,
            }
        }
        if p != b.len() {
            return None;
        }
        Some(RawMessage { parts })
    }
    pub fn of(m: &ProtocolMessage) -> RawMessage {
        RawMessage::decode(&postcard::to_stdvec(m).unwrap()).expect("mirror decodes real message")
    }
    pub fn value_count(&self) -> usize {
        self.parts
            .iter()
            .map(|p| match p {
                RawPart::Item { values, .. } => values.len(),
                _ => 0,
            })
            .sum()
    }
}

/// Self-check: the hand-written entry encoder agrees with the crate on a real entry.
pub fn self_check(e: &SignedEntry) -> Result<(), String> {
    let real = postcard::to_stdvec(e).unwrap();
    let raw = RawEntry::of(e);
    if raw.to_bytes() != real {
        return Err("mirror entry encoding differs from the crate's".into());
    }
    if raw.into_entry().ok().as_ref() != Some(e) {
        return Err("mirror entry does not decode to the same entry".into());
    }
    Ok(())
}
