//! Drive one reconciliation session between two real stores, message by message, through the
//! public `Replica` API.

use iroh_docs::{store::Store, sync::ProtocolMessage, NamespaceId, SyncOutcome};

use crate::util::block_on;

pub const PEER_A: [u8; 32] = [0xA1; 32];
pub const PEER_B: [u8; 32] = [0xB2; 32];

#[derive(Debug, Default)]
pub struct SessionResult {
    /// postcard bytes of every message, in order (initiator's first)
    pub transcript: Vec<Vec<u8>>,
    pub values_per_message: Vec<usize>,
    pub a: (usize, usize), // (sent, recv) of the initiator
    pub b: (usize, usize),
    pub error: Option<String>,
    pub exceeded_budget: bool,
}

pub type Cfg = Option<(usize, usize)>; // (split_factor, max_set_size), None = default

fn set_cfg(c: Cfg) {
    match c {
        Some((s, m)) => iroh_docs::verif::set_sync_config(s, m),
        None => iroh_docs::verif::set_sync_config(0, 0),
    }
}

fn count(m: &ProtocolMessage) -> usize {
    crate::wire::RawMessage::of(m).value_count()
}

/// `a` initiates. Runs until one side has nothing more to say or `budget` messages were sent.
pub fn run(a: &mut Store, b: &mut Store, ns: NamespaceId, cfg_a: Cfg, cfg_b: Cfg, budget: usize) -> SessionResult {
    let mut res = SessionResult::default();
    let mut sa = SyncOutcome::default();
    let mut sb = SyncOutcome::default();
    let mut ra = match a.open_replica(&ns) {
        Ok(r) => r,
        Err(e) => {
            res.error = Some(format!("open a: {e:?}"));
            return res;
        }
    };
    let mut rb = match b.open_replica(&ns) {
        Ok(r) => r,
        Err(e) => {
            res.error = Some(format!("open b: {e:?}"));
            return res;
        }
    };
    set_cfg(cfg_a);
    let mut msg = match ra.sync_initial_message() {
        Ok(m) => m,
        Err(e) => {
            res.error = Some(format!("initial message: {e:?}"));
            set_cfg(None);
            return res;
        }
    };
    let mut to_b = true;
    let mut total_bytes = 0usize;
    loop {
        res.transcript.push(postcard::to_stdvec(&msg).unwrap());
        res.values_per_message.push(count(&msg));
        if std::env::var("VCHECK_TRACE").is_ok() {
            eprintln!("  msg {} to_{} values={} bytes={}", res.transcript.len(), if to_b {"b"} else {"a"}, res.values_per_message.last().unwrap(), res.transcript.last().unwrap().len());
        }
        total_bytes += res.transcript.last().unwrap().len();
        if res.transcript.len() > budget || total_bytes > 8 << 20 {
            res.exceeded_budget = true;
            break;
        }
        let reply = if to_b {
            set_cfg(cfg_b);
            block_on(rb.sync_process_message(msg, PEER_A, &mut sb))
        } else {
            set_cfg(cfg_a);
            block_on(ra.sync_process_message(msg, PEER_B, &mut sa))
        };
        match reply {
            Err(e) => {
                res.error = Some(format!("process message at {}: {e:?}", if to_b { "b" } else { "a" }));
                break;
            }
            Ok(None) => break,
            Ok(Some(m)) => {
                msg = m;
                to_b = !to_b;
            }
        }
    }
    set_cfg(None);
    res.a = (sa.num_sent, sa.num_recv);
    res.b = (sb.num_sent, sb.num_recv);
    drop(ra);
    drop(rb);
    a.close_replica(ns);
    b.close_replica(ns);
    res
}
