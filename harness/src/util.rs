//! Helpers around the real store.

use std::{collections::BTreeMap, future::Future, path::PathBuf};

use anyhow::Result;
use iroh_docs::{
    store::{Query, Store},
    sync::InsertError,
    AuthorId, Capability, ContentStatus, NamespaceId, NamespaceSecret, SignedEntry,
};

use crate::model::{AKey, Model, E};

/// Minimal executor for the futures of the raw `Replica` API (they need no reactor: the only
/// await points are sends to subscriber channels). Works inside and outside a tokio runtime.
pub fn block_on<F: Future>(f: F) -> F::Output {
    use std::{
        sync::Arc,
        task::{Context, Poll, Wake, Waker},
    };
    struct Unpark(std::thread::Thread);
    impl Wake for Unpark {
        fn wake(self: Arc<Self>) {
            self.0.unpark();
        }
    }
    let waker = Waker::from(Arc::new(Unpark(std::thread::current())));
    let mut cx = Context::from_waker(&waker);
    let mut f = std::pin::pin!(f);
    loop {
        match f.as_mut().poll(&mut cx) {
            Poll::Ready(v) => return v,
            Poll::Pending => std::thread::park_timeout(std::time::Duration::from_millis(50)),
        }
    }
}

/// Like `block_on`, for use from inside another runtime's `block_on` (the future is driven on
/// a scoped helper thread with its own runtime).
pub fn block_in_place_on<F: Future + Send>(f: F) -> F::Output
where
    F::Output: Send,
{
    std::thread::scope(|s| s.spawn(|| block_on(f)).join().unwrap())
}

pub const PEER: [u8; 32] = [9u8; 32];

/// Scratch directory for file-backed stores, removed on drop.
pub struct Scratch {
    pub dir: tempfile::TempDir,
    n: std::cell::Cell<u32>,
}
impl Scratch {
    pub fn new() -> Self {
        let base = std::env::var("VCHECK_SCRATCH").unwrap_or_else(|_| "/dev/shm/vcheck".into());
        std::fs::create_dir_all(&base).ok();
        Scratch {
            dir: tempfile::Builder::new()
                .prefix("vc")
                .tempdir_in(base)
                .expect("scratch dir"),
            n: std::cell::Cell::new(0),
        }
    }
    pub fn path(&self, name: &str) -> PathBuf {
        let n = self.n.get();
        self.n.set(n + 1);
        self.dir.path().join(format!("{name}-{n}.redb"))
    }
}

#[derive(Clone, Copy, PartialEq, Eq, Debug)]
pub enum Backend {
    Memory,
    File,
}

pub fn new_store(backend: Backend, scratch: &Scratch) -> (Store, Option<PathBuf>) {
    match backend {
        Backend::Memory => (Store::memory(), None),
        Backend::File => {
            let p = scratch.path("db");
            (Store::persistent(&p).expect("persistent store"), Some(p))
        }
    }
}

pub fn import_write(store: &mut Store, ns: &NamespaceSecret) {
    store
        .import_namespace(Capability::Write(ns.clone()))
        .expect("import namespace");
}

/// Full dump of a document (deletion markers included), keyed by (author, key).
pub fn dump(store: &mut Store, ns: NamespaceId) -> Result<BTreeMap<AKey, SignedEntry>> {
    let mut out = BTreeMap::new();
    for e in store.get_many(ns, Query::all().include_empty())? {
        let e = e?;
        let v = E::of(&e);
        if out.insert((v.author, v.key), e).is_some() {
            anyhow::bail!("full scan returned the same (author,key) twice");
        }
    }
    Ok(out)
}

pub fn dump_model(store: &mut Store, ns: NamespaceId) -> Result<Model> {
    Ok(Model { map: dump(store, ns)? })
}

/// Result of offering one entry.
#[derive(Debug, Clone, PartialEq, Eq)]
pub enum Offered {
    Stored(usize),
    Superseded,
    Rejected(String),
}

pub fn classify(res: Result<usize, InsertError>) -> Offered {
    match res {
        Ok(n) => Offered::Stored(n),
        Err(InsertError::NewerEntryExists) => Offered::Superseded,
        Err(e) => Offered::Rejected(format!("{e:?}")),
    }
}

/// Offer through the remote-insert path.
pub fn offer_remote(store: &mut Store, ns: NamespaceId, e: &SignedEntry) -> Offered {
    let mut replica = match store.open_replica(&ns) {
        Ok(r) => r,
        Err(err) => return Offered::Rejected(format!("open: {err:?}")),
    };
    let res = block_on(replica.insert_remote_entry(e.clone(), PEER, ContentStatus::Complete));
    drop(replica);
    store.close_replica(ns);
    classify(res)
}

/// Offer through the local path: clock override set to the entry's timestamp, then `insert` /
/// `delete_prefix` with the entry's author. Returns the outcome and whether the stored entry is
/// byte-identical to the pre-signed one (ed25519 is deterministic).
pub fn offer_local(
    store: &mut Store,
    ns: NamespaceId,
    author: &iroh_docs::Author,
    e: &SignedEntry,
) -> Offered {
    iroh_docs::verif::set_clock(e.timestamp());
    let mut replica = match store.open_replica(&ns) {
        Ok(r) => r,
        Err(err) => return Offered::Rejected(format!("open: {err:?}")),
    };
    let res = if e.content_len() == 0 {
        block_on(replica.delete_prefix(e.key(), author))
    } else {
        block_on(replica.insert(e.key(), author, e.content_hash(), e.content_len()))
    };
    drop(replica);
    store.close_replica(ns);
    iroh_docs::verif::set_clock(0);
    classify(res)
}

pub fn heads(store: &mut Store, ns: NamespaceId) -> Result<BTreeMap<[u8; 32], (u64, Vec<u8>)>> {
    let mut out = BTreeMap::new();
    for r in store.get_latest_for_each_author(ns)? {
        let (a, t, k): (AuthorId, u64, Vec<u8>) = r?;
        if out.insert(a.to_bytes(), (t, k)).is_some() {
            anyhow::bail!("heads returned the same author twice");
        }
    }
    Ok(out)
}

pub fn hexs(b: &[u8]) -> String {
    hex::encode(b)
}

pub fn entry_bytes(e: &SignedEntry) -> Vec<u8> {
    postcard::to_stdvec(e).expect("postcard")
}
