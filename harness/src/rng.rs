//! Small deterministic PRNG (xoshiro256**) so that every case is reproducible from
//! (VERIF_SEED, shard, case index) alone.

#[derive(Clone, Debug)]
pub struct Rng {
    s: [u64; 4],
}

fn splitmix(x: &mut u64) -> u64 {
    *x = x.wrapping_add(0x9E3779B97F4A7C15);
    let mut z = *x;
    z = (z ^ (z >> 30)).wrapping_mul(0xBF58476D1CE4E5B9);
    z = (z ^ (z >> 27)).wrapping_mul(0x94D049BB133111EB);
    z ^ (z >> 31)
}

impl Rng {
    pub fn new(seed: u64) -> Self {
        let mut x = seed;
        let s = [
            splitmix(&mut x),
            splitmix(&mut x),
            splitmix(&mut x),
            splitmix(&mut x),
        ];
        Rng { s }
    }
    pub fn from_parts(parts: &[u64]) -> Self {
        let mut h = 0xcbf29ce484222325u64;
        for p in parts {
            let mut x = *p ^ h;
            h = splitmix(&mut x) ^ h.rotate_left(17);
        }
        Rng::new(h)
    }
    pub fn next_u64(&mut self) -> u64 {
        let r = self.s[1].wrapping_mul(5).rotate_left(7).wrapping_mul(9);
        let t = self.s[1] << 17;
        self.s[2] ^= self.s[0];
        self.s[3] ^= self.s[1];
        self.s[1] ^= self.s[2];
        self.s[0] ^= self.s[3];
        self.s[2] ^= t;
        self.s[3] = self.s[3].rotate_left(45);
        r
    }
    /// uniform in 0..n (n > 0)
    pub fn below(&mut self, n: usize) -> usize {
        (self.next_u64() % (n as u64)) as usize
    }
    pub fn range(&mut self, lo: usize, hi_incl: usize) -> usize {
        lo + self.below(hi_incl - lo + 1)
    }
    pub fn chance(&mut self, num: u32, den: u32) -> bool {
        (self.next_u64() % den as u64) < num as u64
    }
    pub fn pick<'a, T>(&mut self, v: &'a [T]) -> &'a T {
        &v[self.below(v.len())]
    }
    pub fn shuffle<T>(&mut self, v: &mut [T]) {
        for i in (1..v.len()).rev() {
            let j = self.below(i + 1);
            v.swap(i, j);
        }
    }
    pub fn bytes(&mut self, n: usize) -> Vec<u8> {
        (0..n).map(|_| self.next_u64() as u8).collect()
    }
    pub fn fill32(&mut self) -> [u8; 32] {
        let mut b = [0u8; 32];
        for c in b.chunks_mut(8) {
            c.copy_from_slice(&self.next_u64().to_le_bytes());
        }
        b
    }
}

/// FNV-style hash of bytes to u64 for "distinct" accounting.
pub fn h64(bytes: &[u8]) -> u64 {
    let h = blake3::hash(bytes);
    u64::from_le_bytes(h.as_bytes()[..8].try_into().unwrap())
}
