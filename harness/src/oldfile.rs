//! Store files as iroh-docs 0.94..=0.98 wrote them (redb 2.x on-disk format: the variable-width
//! tuple tables carry the old type tag, which redb 4 refuses with `TableTypeMismatch`; the crate
//! converts such a file on the first open).
//!
//! Nothing here re-implements a migration: the harness lets the real, current store write a file,
//! then copies every table row by row into a fresh file with the old type tags (redb 3 with its
//! `Legacy` wrappers, the crate that is linked into iroh-docs for exactly this format). The result
//! holds the same rows as the current-format file, so every observable of the store it came from is
//! the oracle for what the converted store must show.

use std::path::Path;

use anyhow::Result;
use redb::{ReadableDatabase, ReadableMultimapTable, ReadableTable};
use redb_v3::Legacy;

type RecordsKey<'a> = (&'a [u8; 32], &'a [u8; 32], &'a [u8]);
type RecordsValue<'a> = (u64, &'a [u8; 64], &'a [u8; 64], u64, &'a [u8; 32]);
type LatestKey<'a> = (&'a [u8; 32], &'a [u8; 32]);
type LatestValue<'a> = (u64, &'a [u8]);
type ByKeyKey<'a> = (&'a [u8; 32], &'a [u8], &'a [u8; 32]);

mod cur {
    use super::*;
    pub const AUTHORS: redb::TableDefinition<&[u8; 32], &[u8; 32]> = redb::TableDefinition::new("authors-1");
    pub const NAMESPACES_V1: redb::TableDefinition<&[u8; 32], &[u8; 32]> = redb::TableDefinition::new("namespaces-1");
    pub const NAMESPACES: redb::TableDefinition<&[u8; 32], (u8, &[u8; 32])> = redb::TableDefinition::new("namespaces-2");
    pub const RECORDS: redb::TableDefinition<RecordsKey, RecordsValue> = redb::TableDefinition::new("records-1");
    pub const LATEST: redb::TableDefinition<LatestKey, LatestValue> = redb::TableDefinition::new("latest-by-author-1");
    pub const BY_KEY: redb::TableDefinition<ByKeyKey, ()> = redb::TableDefinition::new("records-by-key-1");
    pub const PEERS: redb::MultimapTableDefinition<&[u8; 32], (u64, &[u8; 32])> = redb::MultimapTableDefinition::new("sync-peers-1");
    pub const POLICY: redb::TableDefinition<&[u8; 32], &[u8]> = redb::TableDefinition::new("download-policy-1");
}

mod old {
    use super::*;
    use redb_v3::{MultimapTableDefinition, TableDefinition};
    pub const AUTHORS: TableDefinition<&[u8; 32], &[u8; 32]> = TableDefinition::new("authors-1");
    pub const NAMESPACES_V1: TableDefinition<&[u8; 32], &[u8; 32]> = TableDefinition::new("namespaces-1");
    pub const NAMESPACES: TableDefinition<&[u8; 32], (u8, &[u8; 32])> = TableDefinition::new("namespaces-2");
    pub const RECORDS: TableDefinition<Legacy<RecordsKey>, RecordsValue> = TableDefinition::new("records-1");
    pub const LATEST: TableDefinition<LatestKey, Legacy<LatestValue>> = TableDefinition::new("latest-by-author-1");
    pub const BY_KEY: TableDefinition<Legacy<ByKeyKey>, ()> = TableDefinition::new("records-by-key-1");
    pub const PEERS: MultimapTableDefinition<&[u8; 32], (u64, &[u8; 32])> = MultimapTableDefinition::new("sync-peers-1");
    pub const POLICY: TableDefinition<&[u8; 32], &[u8]> = TableDefinition::new("download-policy-1");
}

/// Which of the derived tables the old file has (an even earlier writer had neither).
#[derive(Clone, Copy, Debug, Default)]
pub struct Shape {
    pub without_heads: bool,
    pub without_by_key: bool,
}

#[derive(Debug, Default)]
pub struct Copied {
    pub records: usize,
    pub peers: usize,
    pub policies: usize,
    pub documents: usize,
}

macro_rules! copy_table {
    ($rtx:expr, $wtx:expr, $from:expr, $to:expr, $n:expr) => {{
        match $rtx.open_table($from) {
            Ok(t) => {
                let mut w = $wtx.open_table($to)?;
                for row in t.iter()? {
                    let (k, v) = row?;
                    w.insert(k.value(), v.value())?;
                    $n += 1;
                }
            }
            Err(redb::TableError::TableDoesNotExist(_)) => {}
            Err(e) => return Err(e.into()),
        }
    }};
}

/// Copy the current-format store file `src` (closed) into a new old-format file `dst`.
pub fn write_old_format(src: &Path, dst: &Path, shape: Shape) -> Result<Copied> {
    let _ = std::fs::remove_file(dst);
    let db = redb::Database::create(src)?;
    let rtx = db.begin_read()?;
    let out = redb_v3::Database::create(dst)?;
    let wtx = out.begin_write()?;
    let mut c = Copied::default();
    let mut sink = 0usize;
    {
        copy_table!(rtx, wtx, cur::AUTHORS, old::AUTHORS, sink);
        copy_table!(rtx, wtx, cur::NAMESPACES_V1, old::NAMESPACES_V1, c.documents);
        copy_table!(rtx, wtx, cur::NAMESPACES, old::NAMESPACES, c.documents);
        copy_table!(rtx, wtx, cur::POLICY, old::POLICY, c.policies);
        copy_table!(rtx, wtx, cur::RECORDS, old::RECORDS, c.records);
        if !shape.without_heads {
            copy_table!(rtx, wtx, cur::LATEST, old::LATEST, sink);
        }
        if !shape.without_by_key {
            copy_table!(rtx, wtx, cur::BY_KEY, old::BY_KEY, sink);
        }
        match rtx.open_multimap_table(cur::PEERS) {
            Ok(t) => {
                let mut w = wtx.open_multimap_table(old::PEERS)?;
                for row in t.iter()? {
                    let (k, values) = row?;
                    for v in values {
                        let v = v?;
                        w.insert(k.value(), v.value())?;
                        c.peers += 1;
                    }
                }
            }
            Err(redb::TableError::TableDoesNotExist(_)) => {}
            Err(e) => return Err(e.into()),
        }
    }
    let _ = sink;
    wtx.commit()?;
    drop(rtx);
    drop(db);
    drop(out);
    Ok(c)
}

/// True when redb 4 refuses the file's tuple tables (i.e. the file really is in the old format).
pub fn is_refused_by_current_redb(path: &Path) -> bool {
    let Ok(db) = redb::Database::create(path) else { return true };
    let Ok(rtx) = db.begin_read() else { return true };
    matches!(rtx.open_table(cur::RECORDS), Err(redb::TableError::TableTypeMismatch { .. }))
}

/// What a user's upgrade looks like to the histories: the (closed, flushed) store file at `path` is
/// rewritten in the old on-disk format at `new_path`, `path` is moved there, and the real open — which
/// converts the file — is returned. `Err(Ok(text))`: the harness could not produce the file;
/// `Err(Err(e))`: the store did not open.
pub fn reopen_through_old_format(path: &mut std::path::PathBuf, new_path: std::path::PathBuf) -> std::result::Result<iroh_docs::store::Store, std::result::Result<String, anyhow::Error>> {
    if let Err(e) = write_old_format(path, &new_path, Shape::default()) {
        return Err(Ok(format!("writing an old-format file failed: {e:?}")));
    }
    if !is_refused_by_current_redb(&new_path) {
        return Err(Ok("the old-format file is not refused by the current redb".into()));
    }
    *path = new_path;
    iroh_docs::store::Store::persistent(&*path).map_err(Err)
}
