#![allow(dead_code)]
//! vcheck — runtime monitors for the iroh-docs properties C01..C18.
//!
//! `vcheck <Cnn> --tier quick|thorough --seed S --shard i/N --out report.json [--case K] [--mode M]`

use std::{
    panic::{catch_unwind, AssertUnwindSafe},
    sync::{atomic::Ordering, Mutex},
};

use serde_json::json;

mod ctx;
mod gen;
mod model;
mod oldfile;
mod props;
mod rng;
mod session;
mod util;
mod wire;
mod act;

use ctx::{Ctx, Tier};

static LAST_PANIC: Mutex<Option<(String, String)>> = Mutex::new(None);

fn main() {
    let args: Vec<String> = std::env::args().collect();
    if args.len() < 2 {
        eprintln!("usage: vcheck <property> [--tier T] [--seed S] [--shard i/N] [--out F] [--case K] [--mode M]");
        std::process::exit(2);
    }
    let prop = args[1].clone();
    let mut tier = Tier::Quick;
    let mut seed = 1u64;
    let mut shard = (0u64, 1u64);
    let mut out: Option<String> = None;
    let mut case = None;
    let mut mode = None;
    let mut i = 2;
    while i < args.len() {
        let v = args.get(i + 1).cloned().unwrap_or_default();
        match args[i].as_str() {
            "--tier" => tier = if v == "thorough" { Tier::Thorough } else { Tier::Quick },
            "--seed" => seed = v.parse().expect("seed"),
            "--shard" => {
                let (a, b) = v.split_once('/').expect("i/N");
                shard = (a.parse().unwrap(), b.parse().unwrap());
            }
            "--out" => out = Some(v),
            "--case" => case = Some(v.parse().expect("case")),
            "--mode" => mode = Some(v),
            other => {
                eprintln!("unknown argument {other}");
                std::process::exit(2);
            }
        }
        i += 2;
    }

    // child mode used by the crash monitor (C06): not a shard, no report
    if prop == "C06-upgrade-child" {
        props::c06::upgrade_child_main(mode.as_deref().unwrap_or(""));
        return;
    }
    if prop == "C06-node-child" {
        props::c06::node_child_main(mode.as_deref().unwrap_or(""), seed);
        return;
    }
    if prop == "C06-child" {
        props::c06::child_main(mode.as_deref().unwrap_or(""), seed);
        return;
    }

    std::panic::set_hook(Box::new(|info| {
        let loc = info
            .location()
            .map(|l| format!("{}:{}", l.file(), l.line()))
            .unwrap_or_else(|| "?".into());
        let msg = if let Some(s) = info.payload().downcast_ref::<&str>() {
            s.to_string()
        } else if let Some(s) = info.payload().downcast_ref::<String>() {
            s.clone()
        } else {
            "?".into()
        };
        if std::env::var("VCHECK_VERBOSE_PANICS").is_ok() {
            eprintln!("panic at {loc}: {msg}");
        }
        let mut g = LAST_PANIC.lock().unwrap_or_else(|e| e.into_inner());
        // keep the first panic of a cascade
        if g.is_none() {
            *g = Some((loc, msg));
        }
    }));

    let mut ctx = Ctx::new(&prop, tier, seed, shard.0, shard.1);
    ctx.only_case = case;
    ctx.mode = mode;

    let res = catch_unwind(AssertUnwindSafe(|| props::dispatch(&mut ctx)));
    if res.is_err() {
        let (loc, msg) = take_panic().unwrap_or(("?".into(), "?".into()));
        let case = ctx::CURRENT_CASE.load(Ordering::SeqCst);
        if loc.contains("/verif/harness/") || loc.starts_with("src/") {
            ctx.harness_error(format!("harness panic at {loc}: {msg} (case {case})"));
        } else {
            let sig = format!("panic:{}", short_loc(&loc));
            ctx.violation(case, &sig, json!({"location": loc, "message": msg}));
        }
    }
    let report = ctx.report();
    let text = serde_json::to_string(&report).unwrap();
    match out {
        Some(p) => std::fs::write(p, text).expect("write report"),
        None => println!("{}", serde_json::to_string_pretty(&report).unwrap()),
    }
}

pub fn peek_panic() -> bool {
    LAST_PANIC.lock().unwrap_or_else(|e| e.into_inner()).is_some()
}

pub fn take_panic() -> Option<(String, String)> {
    LAST_PANIC.lock().unwrap_or_else(|e| e.into_inner()).take()
}

pub fn short_loc(loc: &str) -> String {
    // "/repo/src/sync.rs:1094" -> "src/sync.rs:1094"; registry paths -> crate/file:line
    if let Some(p) = loc.find("/src/") {
        let head = &loc[..p];
        let krate = head.rsplit('/').next().unwrap_or("");
        if head.ends_with("/repo") || krate == "repo" {
            return strip_line(&loc[p + 1..]);
        }
        return strip_line(&format!("{}{}", krate, &loc[p..]));
    }
    strip_line(loc)
}

fn strip_line(s: &str) -> String {
    match s.rsplit_once(':') {
        Some((f, l)) if l.chars().all(|c| c.is_ascii_digit()) => f.to_string(),
        _ => s.to_string(),
    }
}
