#!/usr/bin/env python3
"""Regenerate MANIFEST.json from plans.py (claimed checks) and manifest_meta.py (texts)."""
import json
import subprocess
from plans import PLANS, LEVELS
from manifest_meta import META, NOT_APPLICABLE_REASONS, HOOK_COMMITS

props = [json.loads(l)["id"] for l in open("properties.jsonl")]
checks = []
for p in props:
    if p not in PLANS or p not in META:
        continue
    m = META[p]
    checks.append({
        "property_id": p,
        "quick_cmd": f"./check {p} --tier quick",
        "thorough_cmd": f"./check {p} --tier thorough",
        "evidence_file": f"evidence/{p}.json",
        "replay_cmd_template": f"./check {p} --replay {{path}}",
        "engine": "vcheck",
        "level_claimed": {"category": LEVELS[p], "text": m["level_text"], "design_ref": m["design_ref"]},
        "level_note": m["level_note"],
        "technique": m["technique"],
    })
na = [{"property_id": p, "reason": NOT_APPLICABLE_REASONS.get(p, "monitor not built yet in this round; planned, see DESIGN.md section 5")}
      for p in props if p not in {c["property_id"] for c in checks}]
manifest = {
    "version": 1,
    "setup_cmd": "./setup.sh",
    "hooks": {
        "guard": "cargo feature `verif` of iroh-docs (off by default)",
        "enable": "harness/Cargo.toml depends on iroh-docs = { path = \"/repo\", features = [\"verif\"] }; ./check rebuilds it from /repo's working tree on every run",
        "baseline_off_cmd": "cd /repo && CARGO_NET_OFFLINE=true cargo nextest run --workspace --no-fail-fast --test-threads 8 --offline",
        "source_commits": HOOK_COMMITS,
        "add_only": True,
    },
    "engines": [
        {"name": "vcheck", "path": "harness/", "serves_properties": [c["property_id"] for c in checks],
         "kind_free_text": "Rust harness linking the real crate (feature verif): seeded hostile workloads, reference-model and invariant monitors, offline history checkers; sharded into 16 processes by ./check; Miri / ThreadSanitizer / valgrind sub-runs under tools/"},
    ],
    "checks": checks,
    "not_applicable": na,
    "notes": "Technique family: runtime monitoring and sanitizers. Verdicts are three-valued: exit 0 held on what was observed, exit 1 VIOLATION, exit 2/3 inconclusive (build failure, watchdog, harness error, monitor observed nothing). known_findings.json lists recorded findings and fixed defects.",
}
json.dump(manifest, open("MANIFEST.json", "w"), indent=1)
print("checks:", [c["property_id"] for c in checks], "not_applicable:", [n["property_id"] for n in na])
