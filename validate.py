#!/opt/veriftools/pyvenv/bin/python
import json, sys, glob, jsonschema
jsonschema.validate(json.load(open('MANIFEST.json')), json.load(open('/root/.vp/MANIFEST.schema.json')))
s = json.load(open('/root/.vp/EVIDENCE.schema.json'))
for f in sorted(glob.glob('evidence/*.json')):
    jsonschema.validate(json.load(open(f)), s)
print('manifest and', len(glob.glob('evidence/*.json')), 'evidence files valid')
