//! Workloads small enough for Miri (undefined-behaviour and data-race interpreter).
//!
//!   mirirun c09 <seed> <inputs-per-decoder>   hostile bytes through every pure decoder
//!   mirirun c12 <seed>                         subscriber churn through the real store actor
//!
//! Prints `MIRI-REPORT {json}` at the end; Miri itself is the monitor (any UB / race aborts).

use std::str::FromStr;

use bytes::BytesMut;
use iroh_docs::{
    actor::{OpenOpts, SyncHandle},
    net::verif::{decode_frame, decode_frame_eof},
    store::{DownloadPolicy, FilterKind, Query, Store},
    sync::ProtocolMessage,
    Author, AuthorHeads, Capability, DocTicket, Event, NamespaceSecret, SignedEntry,
};
use iroh_tickets::Ticket;

struct Rng(u64);
impl Rng {
    fn next(&mut self) -> u64 {
        self.0 = self.0.wrapping_add(0x9E3779B97F4A7C15);
        let mut z = self.0;
        z = (z ^ (z >> 30)).wrapping_mul(0xBF58476D1CE4E5B9);
        z = (z ^ (z >> 27)).wrapping_mul(0x94D049BB133111EB);
        z ^ (z >> 31)
    }
    fn below(&mut self, n: usize) -> usize {
        (self.next() % n as u64) as usize
    }
}

/// a validly signed entry (the suite's pinned snapshot), so that mutations stay near valid inputs
const ENTRY: &str = "4b523f1b6d9b00a4779fc9f8f105a9e36f062ceb7d511b632905782042ad30acb6dd07bfced4ecd5f3aa58321e8ace63f48f988ed8461bfdcd8b0e902187a10e228ddc6998329b7faa64875fe80da36406ea8d87e3e57bb048323e9cb66c0b343b60c4e709fb978b878e37d0c362edfc06c8cdc774c8b29d94e48eaa06cca60f5055154f42065ea5a1bea05463826be2684eb92df92c100027aabaae57ca554207bc7cbcb5636375fa1d82434d466724d92377f53b980695dd49d26d0ce12205a5776972652d666f726d61742d7465737400af1349b9f5f9a1a6a0404dea36dcc9499bcb25c9adc112b7cc9a93cae41f32628080f9c0c1c48203";

fn mutate(rng: &mut Rng, base: &[u8]) -> Vec<u8> {
    let mut v = base.to_vec();
    match rng.below(6) {
        0 => {
            let n = rng.below(v.len() + 1);
            v.truncate(n);
        }
        1 | 2 => {
            if !v.is_empty() {
                let i = rng.below(v.len());
                v[i] ^= 1 << rng.below(8);
            }
        }
        3 => {
            let n = rng.below(48);
            v = (0..n).map(|_| rng.next() as u8).collect();
        }
        4 => {
            // shrink the identifier length prefix (offset 128) to something short
            if v.len() > 130 {
                v[128] = rng.below(70) as u8;
            }
        }
        _ => {}
    }
    v
}

fn c09(seed: u64, n: usize) -> (u64, u64) {
    let mut rng = Rng(seed);
    let entry = hex::decode(ENTRY).unwrap();
    let mut inputs = 0u64;
    let mut decoded = 0u64;
    // a one-item reconciliation message and its frame, built from the valid entry
    let mut msg = vec![1u8, 1u8, 64];
    msg.extend_from_slice(&[0u8; 64]);
    msg.push(64);
    msg.extend_from_slice(&[0u8; 64]);
    msg.push(1);
    msg.extend_from_slice(&entry);
    msg.push(0);
    msg.push(1);
    let mut sync = vec![1u8];
    sync.extend_from_slice(&msg);
    let mut frame = (sync.len() as u32).to_be_bytes().to_vec();
    frame.extend_from_slice(&sync);
    let heads = {
        let mut h = AuthorHeads::default();
        for i in 0..4u8 {
            h.insert(iroh_docs::AuthorId::from(&[i; 32]), 1000 + i as u64 % 2);
        }
        h.encode(None).unwrap()
    };
    let ticket = {
        let mut t = vec![0u8, 1u8];
        t.extend_from_slice(&[7u8; 32]);
        t.push(1);
        t.extend_from_slice(&hex::decode("ae58ff8833241ac82d6ff7611046ed67b5072d142c588d0063e942d9a75502b6").unwrap());
        t.push(0);
        t
    };
    for i in 0..n {
        let b = if i == 0 { entry.clone() } else { mutate(&mut rng, &entry) };
        inputs += 1;
        if let Ok(e) = postcard::from_bytes::<SignedEntry>(&b) {
            decoded += 1;
            let _ = (e.namespace(), e.author(), e.key().len(), e.timestamp(), e.content_hash(), e.content_len());
            let _ = e.id().as_byte_tuple();
            let _ = e.validate_empty();
            let _ = format!("{e:?}");
            let _ = e.entry().to_vec();
        }
        let b = if i == 0 { msg.clone() } else { mutate(&mut rng, &msg) };
        inputs += 1;
        if let Ok(m) = postcard::from_bytes::<ProtocolMessage>(&b) {
            decoded += 1;
            let _ = format!("{m:?}").len();
        }
        let b = if i == 0 { frame.clone() } else { mutate(&mut rng, &frame) };
        inputs += 1;
        let mut buf = BytesMut::from(&b[..]);
        if let Ok(Some(_)) = decode_frame(&mut buf) {
            decoded += 1;
        }
        let mut buf = BytesMut::from(&b[..]);
        let _ = decode_frame_eof(&mut buf);
        let b = if i == 0 { heads.clone() } else { mutate(&mut rng, &heads) };
        inputs += 1;
        if let Ok(h) = AuthorHeads::decode(&b) {
            decoded += 1;
            let _ = h.encode(Some(40));
        }
        let b = if i == 0 { ticket.clone() } else { mutate(&mut rng, &ticket) };
        inputs += 1;
        if let Ok(t) = DocTicket::decode_bytes(&b) {
            decoded += 1;
            let s = t.to_string();
            let _ = DocTicket::from_str(&s);
        }
        let mut raw = [0u8; 32];
        for x in raw.iter_mut() {
            *x = rng.next() as u8;
        }
        inputs += 1;
        if Capability::from_raw(rng.below(4) as u8, &raw).is_ok() {
            decoded += 1;
        }
        let junk: Vec<u8> = (0..rng.below(24)).map(|_| rng.next() as u8).collect();
        inputs += 3;
        let _ = postcard::from_bytes::<DownloadPolicy>(&junk);
        let _ = postcard::from_bytes::<Query>(&junk);
        let s = format!("{}:{}:{}", ["prefix", "exact", "x"][rng.below(3)], ["hex", "utf8", "q"][rng.below(3)], hex::encode(&junk));
        if FilterKind::from_str(&s).is_ok() {
            decoded += 1;
        }
    }
    (inputs, decoded)
}

fn c12(seed: u64) -> (u64, u64) {
    let mut rng = Rng(seed);
    let rt = tokio::runtime::Builder::new_current_thread().enable_time().build().unwrap();
    rt.block_on(async {
        let ns = NamespaceSecret::from_bytes(&[7u8; 32]);
        let author = Author::from_bytes(&[9u8; 32]);
        let mut store = Store::memory();
        store.import_namespace(Capability::Write(ns.clone())).unwrap();
        store.import_author(author.clone()).unwrap();
        let h = SyncHandle::spawn(store, None, "miri".into());
        let mut rxs = vec![];
        let mut txs = vec![];
        let (tx, rx) = async_channel::unbounded::<Event>();
        h.open(ns.id(), OpenOpts::default().sync().subscribe(tx.clone())).await.unwrap();
        txs.push(tx);
        rxs.push(Some(rx));
        for _ in 0..2 {
            let (tx, rx) = async_channel::unbounded::<Event>();
            h.subscribe(ns.id(), tx.clone()).await.unwrap();
            txs.push(tx);
            rxs.push(Some(rx));
        }
        // the order of unsubscribe / drop depends on the seed; the unsafe pointer comparison in
        // Subscribers::unsubscribe runs over senders that are and are not the same channel
        let victim = rng.below(3);
        h.unsubscribe(ns.id(), txs[victim].clone()).await.unwrap();
        let dropped = (victim + 1 + rng.below(2)) % 3;
        rxs[dropped] = None;
        let hash = iroh_blobs::Hash::new(b"x");
        h.insert_local(ns.id(), author.id(), bytes::Bytes::from_static(b"k1"), hash, 1).await.unwrap();
        h.insert_local(ns.id(), author.id(), bytes::Bytes::from_static(b"k2"), hash, 1).await.unwrap();
        let st = h.get_state(ns.id()).await.unwrap();
        let mut events = 0u64;
        for (i, rx) in rxs.iter().enumerate() {
            if let Some(rx) = rx {
                let mut n = 0;
                while rx.try_recv().is_ok() {
                    n += 1;
                }
                let want = if i == victim { 0 } else { 2 };
                assert_eq!(n, want, "subscriber {i} saw {n} events, expected {want}");
                events += n;
            }
        }
        // after two sends the dropped receiver's sender is pruned
        assert_eq!(st.subscribers, 1, "subscribers after unsubscribe + dropped receiver");
        let _ = h.shutdown().await.unwrap();
        (5 + 2, events)
    })
}

fn main() {
    let args: Vec<String> = std::env::args().collect();
    let what = args.get(1).map(|s| s.as_str()).unwrap_or("c09");
    let seed: u64 = args.get(2).and_then(|s| s.parse().ok()).unwrap_or(1);
    let (a, b) = match what {
        "c12" => c12(seed),
        _ => c09(seed, args.get(3).and_then(|s| s.parse().ok()).unwrap_or(10)),
    };
    println!("MIRI-REPORT {{\"what\":\"{what}\",\"seed\":{seed},\"operations\":{a},\"observed\":{b}}}");
}
