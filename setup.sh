#!/bin/sh
# Warm the harness build (offline). ./check rebuilds incrementally from /repo's working tree.
set -e
cd "$(dirname "$0")/harness"
CARGO_NET_OFFLINE=true cargo build --release --offline 2>&1 | tail -3
