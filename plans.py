"""Per-property run plans, evidence levels, rules and assumptions used by ./check."""


def shards(quick_budget=25, thorough_budget=300, mode=None, n=16, env=None):
    q = {"shards": n, "budget": quick_budget}
    t = {"shards": n, "budget": thorough_budget}
    if mode:
        q["mode"] = mode
        t["mode"] = mode
    if env:
        q["env"] = env
        t["env"] = env
    return q, t


def plan(*parts):
    return {"quick": [p[0] for p in parts if p[0]], "thorough": [p[1] for p in parts if p[1]]}


PLANS = {
    "C01": plan(shards(20, 240)),
    "C02": plan(shards(20, 240)),
    "C03": plan(shards(20, 240)),
    "C04": plan(shards(25, 300, mode="light", n=12), shards(25, 300, mode="actor", n=4)),
    "C05": plan(shards(20, 240)),
    "C08": plan(shards(20, 240)),
    "C09": plan(shards(20, 240)),
    "C10": plan(shards(40, 400, mode="script", n=12), shards(25, 300, mode="faults", n=3), shards(15, 120, mode="shutdown-race", n=1)),
    "C11": plan(shards(25, 300, mode="two", n=12), shards(25, 300, mode="three", n=4)),
    "C12": plan(shards(20, 240)),
    "C13": plan(shards(20, 240)),
    "C06": plan(shards(25, 300, mode="images", n=14), shards(20, 200, mode="kill", n=2)),
    "C07": plan(shards(20, 240)),
    "C14": plan(shards(20, 240)),
    "C15": plan(shards(20, 240)),
    "C16": plan(shards(20, 240)),
    "C17": plan(shards(20, 240)),
    "C18": plan(shards(20, 240)),
}

LEVELS = {p: "exploration" for p in ["C%02d" % i for i in range(1, 19)]}
LEVELS["C06"] = "fault_enumeration"
LEVELS["C10"] = "fault_enumeration"

RULES = {
    "C02": "case = multiset of 3..14 signed entries (2-4 authors, keys over {00,01,61,62,FE,FF} len 0..4 with "
           "derived prefix/successor keys, timestamps T0+0..7, 30% deletion markers) applied in >=6 permutations "
           "with re-offers through remote insert / local insert / delete_prefix on memory and file stores; after "
           "every step result and full dump are compared with the sequential specification, at the end with the "
           "closed form. non-trivial = the merge differs from the plain union (something is superseded or pruned); "
           "distinct = hash of the offered multiset.",
}

ASSUMPTIONS = {
    "C02": ["ed25519 signing is deterministic (asserted: locally authored entries are compared byte-for-byte with pre-signed ones)",
            "the full scan Query::all().include_empty() returns what the records table holds (cross-checked by C05)"],
}
