"""Per-property run plans, evidence levels, rules and assumptions used by ./check."""


def shards(quick_budget=25, thorough_budget=300, mode=None, n=16, env=None):
    q = {"shards": n, "budget": quick_budget}
    t = {"shards": n, "budget": thorough_budget}
    if mode:
        q["mode"] = mode
        t["mode"] = mode
    if env:
        q["env"] = env
        t["env"] = env
    return q, t


def tool(name, args=None, timeout=3600, quick=False):
    spec = {"tool": name, "args": args or [], "timeout": timeout}
    return (spec if quick else None), spec


def plan(*parts):
    return {"quick": [p[0] for p in parts if p[0]], "thorough": [p[1] for p in parts if p[1]]}


PLANS = {
    "C01": plan(shards(20, 300)),
    "C02": plan(shards(20, 300)),
    "C03": plan(shards(20, 300)),
    "C04": plan(shards(20, 300, mode="light", n=10), shards(20, 300, mode="actor", n=3), shards(25, 300, mode="stack", n=3)),
    "C05": plan(shards(20, 300)),
    "C06": plan(shards(20, 360, mode="images", n=11), shards(15, 240, mode="kill", n=2), shards(20, 300, mode="upgrade", n=1), shards(20, 300, mode="node", n=1), shards(20, 300, mode="actor", n=1), tool("memcheck.sh", ["C06"], 3000)),
    "C07": plan(shards(15, 240, n=15), shards(15, 240, mode="api", n=1)),
    "C08": plan(shards(20, 300)),
    "C09": plan(shards(20, 300), tool("miri.sh", ["c09"], 3000), tool("memcheck.sh", ["C09"], 3000)),
    "C10": plan(shards(30, 480, mode="script", n=10), shards(20, 300, mode="faults", n=3),
                shards(12, 120, mode="shutdown-race", n=1), shards(20, 240, mode="net", n=2), shards(20, 240, mode="stack", n=1)),
    "C11": plan(shards(20, 360, mode="two", n=9), shards(20, 360, mode="three", n=3), shards(20, 300, mode="net", n=2), shards(20, 300, mode="live", n=2)),
    "C12": plan(shards(20, 300, n=13), shards(20, 300, mode="stack", n=2), shards(15, 240, mode="api", n=1), tool("miri.sh", ["c12"], 3000), tool("tsan.sh", ["C12"], 3000)),
    "C13": plan(shards(15, 240)),
    "C14": plan(shards(20, 300, n=14), shards(15, 240, mode="api", n=2), tool("tsan.sh", ["C14"], 3000)),
    "C15": plan(shards(12, 180, n=10), shards(12, 180, mode="live", n=3), shards(20, 240, mode="stack", n=2), shards(15, 240, mode="api", n=1)),
    "C16": plan(shards(15, 240, n=12), shards(15, 240, mode="engine", n=3), shards(15, 240, mode="api", n=1)),
    "C17": plan(shards(12, 180)),
    "C18": plan(shards(15, 240)),
}

LEVELS = {p: "exploration" for p in ["C%02d" % i for i in range(1, 19)]}
LEVELS["C06"] = "fault_enumeration"
LEVELS["C10"] = "fault_enumeration"

_GEN = ("keys over {00,01,61,62,FE,FF} of length 0..4 with derived prefix / truncation / successor / ..FF forms, 2-4 "
        "authors, timestamps T0+0..7 (equal and decreasing arrival), 30% deletion markers")

RULES = {
    "C01": "case = pair of replica states built through the real insert path from random offers (" + _GEN + ", <=24 per side, partly shared), "
           "reconciled with each side initiating on memory/file stores under a random (split factor, max set size) per side. "
           "non-trivial = both states non-empty and different; distinct = hash of both start dumps.",
    "C02": "case = multiset of 3..14 signed entries (" + _GEN + ") applied in >=6 permutations with re-offers through remote "
           "insert / local insert / delete_prefix on memory and file stores; after every step result and full dump are compared "
           "with the sequential specification, at the end with the closed form. non-trivial = the merge differs from the "
           "plain union (something is superseded or pruned); distinct = hash of the offered multiset.",
    "C03": "case = one store actor with a subscriber; 2..6 batches, each a crafted reconciliation message (1..8 values over 1..3 "
           "item parts mixed with fingerprint parts) or a single remote insert, values drawn from 22 tamper kinds and valid entries. "
           "non-trivial = at least two different kinds presented; distinct = hash of case and kinds.",
    "C04": "case = history of 8..60 events over 2..5 replicas (local writes with skewed clocks and unique contents, broadcast "
           "deliver/drop/duplicate in any order, sessions cut after k messages, restarts of file-backed replicas), then closing "
           "rounds over a line / star / ring / random tree; one light history in three observed sparsely, with calls the store must refuse between the writes. non-trivial = at least one fault and two accepted writes; distinct = hash of the history."
           " stack mode: 2..3 complete docs nodes on loopback (real gossip, QUIC sessions, downloads), 6..18 client-API steps per history (writes and deletions under the clock hook, joins by ticket, leave / rejoin, pauses), then closing rounds of kicked sessions until every dump equals the merge; non-trivial = something was superseded or a node left and rejoined.",
    "C05": "case = replica state (2..20 offers incl. prefix deletions, second document in the same store) with 250 (quick) / 600 "
           "random queries from the product kind x author(any,each,absent) x key filter(held keys, prefixes, ..FF, successor) x sort x "
           "direction x include-empty x offset{0,1,2,n,n+1} x limit{none,0,1,2,n}. non-trivial = state with >=2 entries; distinct = hash of the state.",
    "C06": "case = history of 6..25 store calls (inserts and deletes with dense prefix relations, remote inserts, imports, policy, peers, "
           "flush, scans, document removal); images: after every call, at every internal store access with the age-based commit "
           "forced at every access / at one access, and SIGKILLed child processes running 400-call histories. non-trivial = history "
           "containing a call that both prunes and writes (images), a kill that hit a running history (kill); distinct = hash of the history / kill point. "
           "upgrade mode: the stored history is copied into a file of the redb-2.x on-disk format (with or without derived tables) and opened by a child that strace kills on entry to its k-th file-system call (all calls when <= 32 quick / 400 thorough, else a sample plus every rename / link / unlink); each kill point is one evaluation. node mode: a child does what a persistent docs node does when it starts (open the store, start the store actor, load or create the default author) and then follows a script of 1..5 steps (create an author and make it the default with or without a flush in between, flush, restart); strace kills it at the n-th call of every file-system call name (all when <= 48 quick / 600 thorough, else every call naming a path plus a sample); after each kill the node is started twice on what is left: it must start, its default author must be in the store and be the acknowledged one or the one being set. actor mode: the histories of the images mode issued as requests to a store actor over a database file; images inside the store-access callback (actor thread; with and without the age-based commit forced at every access), after every acknowledged flush_store (everything before it must be there) and after shutdown returned with the store still alive (the final state must be there).",
    "C07": "case = 4..30 random steps over three documents (import read/write, open, close, reopen, local insert/delete, valid remote "
           "insert, export, foreign merge), through the store (2/3) or the actor (1/3). non-trivial = a read capability was upgraded; distinct = hash of the trace."
           " api mode: one complete docs node driven through its client layer (DocsApi / Doc): 8..40 calls over two documents and three authors (import read / write, open, close of a client handle, calls through a closed handle, subscribe, set / get download policy, set_bytes / set_hash / del under the clock hook, start_sync / share(read|write) / leave, subscribe, drop_doc, author delete / import, list, get_exact), every reply, status() after every step and the whole content at one step in four compared with a sequential specification; each run judges the clauses of its own property (C14: handle counting, sync switch, gating, replies; C07: capabilities, tickets, listing; C16: drop_doc; C12: the client's event subscriptions carry exactly the accepted local writes, in order; C15: policies set through a handle are read back). non-trivial there = a call was refused and a document was dropped or upgraded.",
    "C08": "case = two replica-state entry sets (closed form of random offers, " + _GEN + ") + a neighbouring document; primitives on "
           "60/200 random ranges with bounds from held ids, successors, other authors, other documents; sessions on memory / file redb "
           "and the ordered map with both initiators under random parameters. non-trivial = both sets non-empty; distinct = hash of both sets.",
    "C09": "case kinds: frame streams of real sessions (every two-chunk split / 64 random split sets / byte-by-byte, every truncation, "
           "length prefixes 2^30, 2^30+1, u32::MAX, single-byte corruption), signed entries (every truncation, corruption, identifier "
           "lengths 0..69, random strings), protocol messages, head reports and tickets, capabilities / filters / policies / queries. "
           "non-trivial = a real, well-formed value that was round-tripped; distinct = hash of its encoding.",
    "C10": "script mode: every sequence of length <=3 (quick) / <=4 over 15 adversarial frames, against the initiator and against the "
           "acceptor with 5 accept decisions (allow, three rejections, allow-once-then-already-syncing) (exhaustive per run when all shards finish; evidence counts the sequences done). faults "
           "mode: generated pairs x every frame index x {close replica, sync off, actor shutdown, cut, cut inside frame} x side. "
           "net mode (workload shared with C11): a complete docs node on loopback against a hand-driven peer; requests for a document the node holds but does not sync are declined and must leave that document without stored sync peers and without entries. shutdown-race mode: 2..6 clients issuing requests while the actor is shut down. non-trivial = every sequence / pair with >=3 frames; distinct = hash.",
    "C11": "case = random schedule (<=6 dials, <=14 quick / 24 thorough events) over two or three real live actors on a fresh document: "
           "dial decisions (new neighbour / sync report / direct join), request delivery or loss, decline reply delivered or lost, both "
           "session ends finishing Ok or with each error class in any order, ending with a probe dial at quiescence. "
           "non-trivial = >=4 events; distinct = hash of the history; distinct_sets.states = distinct (slot states, in-flight objects) seen. "
           "net mode: a complete docs node (engine, router, real net::handle_connection) on loopback against a hand-driven peer: 4..12 steps of "
           "request / hold / continue / kill a session, end a declined connection orderly, abruptly, by reset or by stop, pauses; judged at the "
           "boundary: a request accepted while an earlier accepted session is held and then still answers, more end-of-session events than "
           "accepted sessions, a decline after every accepted session was reported finished, a request for a document not being synced not declined as NotFound. non-trivial = a request declined while a session is held. live mode: two complete nodes running by themselves plus up to 48 peers that do not exist; 3..10 steps of start_sync with a burst of 1..48 such peers, with the other node, imports by ticket, writes, leave; after every step and until nothing is in flight the running actors are asked (hook H8) for the slots of the document and their tasks in flight: slots busy with a dial <= dial tasks, slots busy with an accepted session <= accept tasks, all idle when nothing is in flight.",
    "C12": "case = 5..25 steps on one store actor: subscribe / unsubscribe / drop receiver (<=4 subscribers), policy change, local insert / "
           "delete, single remote entry (direct or as message; valid, superseded, forged), multi-entry messages with forged entries, "
           "sessions with a local write between two messages, another document borrowing a subscriber channel and being closed. non-trivial = subscriber churn happened and events were produced; distinct = hash of the trace."
           " stack mode: 2..3 complete docs nodes on loopback (real gossip, QUIC sessions, downloads), 6..18 client-API steps per history (writes and deletions under the clock hook, joins by ticket, leave / rejoin, pauses), then closing rounds of kicked sessions until every dump equals the merge; non-trivial = something was superseded or a node left and rejoined. Judged there: the event streams of the nodes."
           " api mode: one complete docs node driven through its client layer (DocsApi / Doc): 8..40 calls over two documents and three authors (import read / write, open, close of a client handle, calls through a closed handle, subscribe, set / get download policy, set_bytes / set_hash / del under the clock hook, start_sync / share(read|write) / leave, subscribe, drop_doc, author delete / import, list, get_exact), every reply, status() after every step and the whole content at one step in four compared with a sequential specification; each run judges the clauses of its own property (C14: handle counting, sync switch, gating, replies; C07: capabilities, tickets, listing; C16: drop_doc; C12: the client's event subscriptions carry exactly the accepted local writes, in order; C15: policies set through a handle are read back). non-trivial there = a call was refused and a document was dropped or upgraded.",
    "C13": "case kinds: (2/3) history of 3..14 offers per document on two neighbouring documents in random arrival order with removal "
           "and re-creation, heads and 3 probe reports checked after every step; (1/3) head set of 0..40 authors over 1..6 timestamps "
           "of different varint widths, no limit and 12 limits. non-trivial = decreasing arrival happened / timestamps shared; distinct = hash.",
    "C14": "case kinds: (2/3) sequential history of 5..40 requests over two documents compared reply by reply and by get_state; (1/3) "
           "2..4 concurrent clients x 2..5 requests on a 4-thread runtime, checked for linearizability per document. non-trivial = "
           "sequential: some request had to be refused; concurrent: operations of different clients overlapped; distinct = hash of the history."
           " api mode: one complete docs node driven through its client layer (DocsApi / Doc): 8..40 calls over two documents and three authors (import read / write, open, close of a client handle, calls through a closed handle, subscribe, set / get download policy, set_bytes / set_hash / del under the clock hook, start_sync / share(read|write) / leave, subscribe, drop_doc, author delete / import, list, get_exact), every reply, status() after every step and the whole content at one step in four compared with a sequential specification; each run judges the clauses of its own property (C14: handle counting, sync switch, gating, replies; C07: capabilities, tickets, listing; C16: drop_doc; C12: the client's event subscriptions carry exactly the accepted local writes, in order; C15: policies set through a handle are read back). non-trivial there = a call was refused and a document was dropped or upgraded.",
    "C15": "case kinds: matcher (policy x all keys up to length 3 over the alphabet + filter-derived keys), persistence (set/get/reopen over "
           "two documents and a missing one), filter text round-trips and arbitrary strings, event flags from a real actor; live mode: 4..16 steps of policy change / remote insert with its own content hash (sender has or lacks the content) / neighbour announcement against a real live actor (H7), non-trivial there = a history with selected and excluded entries. "
           "non-trivial = policy that selects some keys and not others / >=2 steps / filter round-tripped; distinct = hash."
           " stack mode: 2..3 complete docs nodes on loopback (real gossip, QUIC sessions, downloads), 6..18 client-API steps per history (writes and deletions under the clock hook, joins by ticket, leave / rejoin, pauses), then closing rounds of kicked sessions until every dump equals the merge; non-trivial = something was superseded or a node left and rejoined. Judged there: content of entries a node's policy does not select."
           " api mode: one complete docs node driven through its client layer (DocsApi / Doc): 8..40 calls over two documents and three authors (import read / write, open, close of a client handle, calls through a closed handle, subscribe, set / get download policy, set_bytes / set_hash / del under the clock hook, start_sync / share(read|write) / leave, subscribe, drop_doc, author delete / import, list, get_exact), every reply, status() after every step and the whole content at one step in four compared with a sequential specification; each run judges the clauses of its own property (C14: handle counting, sync switch, gating, replies; C07: capabilities, tickets, listing; C16: drop_doc; C12: the client's event subscriptions carry exactly the accepted local writes, in order; C15: policies set through a handle are read back). non-trivial there = a call was refused and a document was dropped or upgraded.",
    "C16": "case = store with 3..5 documents from a pool of byte-neighbour ids, filled with entries, policies and peers; 2..8 steps of "
           "removal (1/3 attempted while open; on file stores half of them cut by the age-based commit at a random store access, with a crash image checked), re-creation, late operations on the removed document, writes; engine mode: a complete docs engine on a database file with a protect handler, 3..12 API steps (set_bytes, set_hash, del, close+drop, create) with the harness calling the protect callback as the blob store's collector would (exact set on the healthy engine; after the engine was shut down or dropped: Abort or the exact set). non-trivial = at least one removal succeeded; distinct = hash of the trace."
           " api mode: one complete docs node driven through its client layer (DocsApi / Doc): 8..40 calls over two documents and three authors (import read / write, open, close of a client handle, calls through a closed handle, subscribe, set / get download policy, set_bytes / set_hash / del under the clock hook, start_sync / share(read|write) / leave, subscribe, drop_doc, author delete / import, list, get_exact), every reply, status() after every step and the whole content at one step in four compared with a sequential specification; each run judges the clauses of its own property (C14: handle counting, sync switch, gating, replies; C07: capabilities, tickets, listing; C16: drop_doc; C12: the client's event subscriptions carry exactly the accepted local writes, in order; C15: policies set through a handle are read back). non-trivial there = a call was refused and a document was dropped or upgraded.",
    "C17": "case = 1..40 registrations over 1..8 peers and two documents (read-only or writable) with reopen, unknown documents and interleaved other store operations (capability import, policy, listing, open/close, removal and re-import). non-trivial = an eviction "
           "and a refresh both happened; distinct = hash of the trace. On file stores: one reopen in three through a redb-2.x format file, one registration in three cut by the age-based commit with a crash image.",
    "C18": "case = file store with 1..3 documents (1..14 offers each), flushed; head table / by-key index / both / none deleted with plain "
           "redb (half of the files without the index also get the old namespaces-1 table); 1..3 reopen cycles with heads, 60 key-ordered queries per document and all observables checked. "
           "non-trivial = a table was deleted; distinct = hash of deleted tables and content. One file in four additionally in the redb-2.x on-disk format.",
}

ASSUMPTIONS = {p: ["the executable replica specification in harness/src/model.rs (self-checked: sequential form == closed form on every case)",
                   "hooks are behaviour-neutral when not armed (feature `verif`)"] for p in PLANS}
ASSUMPTIONS["C02"].append("ed25519 signing is deterministic (locally authored entries are compared byte-for-byte with pre-signed ones)")
ASSUMPTIONS["C06"] = ["a copy of the database file taken while no write is in progress is what a killed process leaves behind (page cache is kept by the kernel)",
                      "redb's commit is atomic and its fsync discipline is sound (power loss is out of scope)",
                      "the shadow instance (in-memory store running the same calls under the same clock) passes through the same logical states"]
ASSUMPTIONS["C09"] = ["the hand-written postcard encoder in harness/src/wire.rs and the three hex snapshots of the test-suite define the pinned encodings"]
ASSUMPTIONS["C10"] = ["an in-memory duplex pipe models the QUIC stream; a cut is an orderly end-of-stream (a transport reset would be an error on both sides)"]
ASSUMPTIONS["C11"] = ["the network model imposes only causality (a session end needs its Allow, a reply needs its Reject); completion handlers are invoked directly rather than through the live actor's select loop",
                      "net mode: the live actor frees the slot before it emits the SyncFinished event of a session (read off on_sync_finished); loopback QUIC stands for the network"]
ASSUMPTIONS["C06"].append("upgrade mode: strace delivers SIGKILL on entry to the chosen call, i.e. after the previous call completed; kill points are system-call boundaries of the single-threaded open")
ASSUMPTIONS["C06"].append("node mode: the persistent state of a docs node is its directory (store file and default-author file); strace counts a call name per thread, so a kill point is 'the first thread to enter its n-th call of that name' (checked with mv under strace: the chosen call itself is not carried out); acknowledgements are directories created by the child (mkdir is not a traced call); a process that dies while redb creates a brand-new database file leaves a file redb refuses to open: no store call has returned at that point and file creation is redb's, so these kills are counted and not judged")
ASSUMPTIONS["C17"] = ["two consecutive registrations obtain distinct wall-clock nanosecond readings"]
