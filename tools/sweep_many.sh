#!/bin/bash
# tools/sweep_many.sh: quick sweeps at several seeds, then thorough checks of the named properties
# usage: tools/sweep_many.sh "11 12" "C12 C14 C16" <thorough seed>
for s in $1; do tools/sweep.sh quick $s; done
[ -n "$2" ] && tools/sweep.sh thorough ${3:-5} $2
echo "sweeps done"
