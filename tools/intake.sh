#!/bin/bash
# tools/intake.sh <Cnn> <round> [extra props...]: take over a sub-agent's seeded change from its scratch
# worktree /tmp/wt-r<round>-<Cnn>: copy patch, demonstration and notes to seeded/agent-<Cnn>-<round>/,
# confirm it in the worktree (suite passes with it, demonstration fails with it and passes without),
# run the quick checks against it in a scratch worktree (tools/seed_try_iso.sh; /repo is not touched).
p="$1"; r="$2"; shift 2
wt=/tmp/wt-r$r-$p; sd=/verif/seeded/agent-$p-$r
[ -f $wt/mutation.diff ] || { echo "no mutation.diff in $wt"; exit 2; }
mkdir -p $sd/demo
(cd $wt && git diff -- src > $sd/patch.diff)
cp $wt/demo/*.rs $sd/demo/ 2>/dev/null; cp $wt/mutation.md $sd/ 2>/dev/null
cp $sd/patch.diff $wt/mutation.diff
/verif/tools/confirm_agent.sh $wt $sd > /dev/null 2>&1
echo "== confirm"; cat $sd/confirm.txt
echo "== checks"
/verif/tools/seed_try_iso.sh $sd/patch.diff $p "$@" 2>&1 | tee $sd/result.txt
