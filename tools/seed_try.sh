#!/bin/bash
# tools/seed_try.sh <patch> <Cnn> [more props...]: apply a patch to /repo, run the quick checks, undo.
# Prints, per property, whether the check raised a VIOLATION. Never commits anything in /repo.
patch="$(realpath "$1")"; shift
cd /repo && git diff --quiet || { echo "/repo has local changes"; exit 2; }
git -C /repo apply "$patch" || { echo "patch does not apply"; exit 2; }
trap 'git -C /repo checkout -- . ; git -C /repo clean -fdq src' EXIT
cd /verif
for p in "$@"; do
  # the evidence file of the unchanged tree is kept: a run against a seeded change must not replace it
  [ -f evidence/$p.json ] && cp evidence/$p.json .work/evidence-$p.keep
  out=$(./check "$p" --tier quick 2>&1)
  rc=$?
  [ -f .work/evidence-$p.keep ] && mv .work/evidence-$p.keep evidence/$p.json
  sigs=$(echo "$out" | grep -o "witness \[[^]]*\]" | sort -u | tr '\n' ' ')
  echo "$p rc=$rc $(echo "$out" | grep -E '^(HELD|INCONCLUSIVE)' | head -1 | cut -c1-80) $sigs"
done
