#!/bin/bash
# tools/seed_try.sh <patch> <Cnn> [more props...]: apply a patch to /repo, run the quick checks, undo.
# Prints, per property, whether the check raised a VIOLATION. Never commits anything in /repo.
patch="$(realpath "$1")"; shift
cd /repo && git diff --quiet || { echo "/repo has local changes"; exit 2; }
git -C /repo apply "$patch" || { echo "patch does not apply"; exit 2; }
trap 'git -C /repo checkout -- . ; git -C /repo clean -fdq src' EXIT
cd /verif
for p in "$@"; do
  out=$(./check "$p" --tier quick 2>&1)
  rc=$?
  sigs=$(echo "$out" | grep -o "witness \[[^]]*\]" | sort -u | tr '\n' ' ')
  echo "$p rc=$rc $(echo "$out" | grep -E '^(HELD|INCONCLUSIVE)' | head -1 | cut -c1-80) $sigs"
done
