#!/usr/bin/env python3
"""Miri sub-run: tools/miri.sh <prop> <tier> <seed> <c09|c12>. Prints one JSON shard report."""
import json, os, re, subprocess, sys, time
from concurrent.futures import ThreadPoolExecutor

prop, tier, seed, what = sys.argv[1], sys.argv[2], int(sys.argv[3]), sys.argv[4]
ROOT = os.path.dirname(os.path.dirname(os.path.abspath(__file__)))
crate = os.path.join(ROOT, "miri")
env = dict(os.environ, CARGO_NET_OFFLINE="true")
rep = {"property": prop, "mode": f"miri-{what}", "evaluations": 0, "nontrivial": [], "samples": [], "violations": [],
       "counters": {}, "sets": {}, "notes": [], "harness_errors": []}
t0 = time.time()
# build once (so that the parallel runs do not fight over the build lock)
b = subprocess.run(["cargo", "+nightly", "miri", "build", "--offline"], cwd=crate, env=dict(env, MIRIFLAGS=""),
                   stdout=subprocess.PIPE, stderr=subprocess.STDOUT, text=True)
if b.returncode != 0:
    # `miri build` is not available on every toolchain: fall back to a tiny run
    pass

def one(i):
    flags = f"-Zmiri-disable-isolation -Zmiri-ignore-leaks -Zmiri-seed={seed * 131 + i}"
    args = [what, str(seed * 1000 + i)] + (["40" if tier == "thorough" else "10"] if what == "c09" else [])
    p = subprocess.run(["cargo", "+nightly", "miri", "run", "--offline", "--"] + args, cwd=crate,
                       env=dict(env, MIRIFLAGS=flags), stdout=subprocess.PIPE, stderr=subprocess.PIPE, text=True,
                       timeout=2400)
    return i, p

n = (8 if what == "c09" else 4) if tier == "thorough" else 2
try:
    with ThreadPoolExecutor(max_workers=n) as ex:
        results = list(ex.map(one, range(n)))
except subprocess.TimeoutExpired:
    rep["harness_errors"].append("miri run exceeded its watchdog")
    results = []
for i, p in results:
    m = re.search(r"MIRI-REPORT (\{.*\})", p.stdout)
    if p.returncode == 0 and m:
        r = json.loads(m.group(1))
        rep["evaluations"] += 1
        rep["counters"][f"miri_{what}_operations_interpreted"] = rep["counters"].get(f"miri_{what}_operations_interpreted", 0) + r["operations"]
        rep["counters"][f"miri_{what}_processes_clean"] = rep["counters"].get(f"miri_{what}_processes_clean", 0) + 1
        rep["nontrivial"].append(hash((what, r["seed"])) & ((1 << 62) - 1))
        if len(rep["samples"]) < 1:
            rep["samples"].append({"miri": r})
    else:
        err = p.stderr
        um = re.search(r"error: (Undefined Behavior|.*[Dd]ata race|.*unsupported operation|.*deadlock|.*memory leaked).*", err)
        pm = re.search(r"panicked at ([^\n]*)\n([^\n]*)", err)
        if um:
            rep["violations"].append({"property": prop, "signature": "miri:" + um.group(0)[:120], "seed": seed, "shard": i, "nshards": n,
                                      "case": 0, "mode": f"miri-{what}", "tier": tier, "detail": {"stderr_tail": err[-3000:]}})
        elif pm and "/repo/" in pm.group(1):
            rep["violations"].append({"property": prop, "signature": "miri-panic:" + pm.group(1).split(":")[0][-40:], "seed": seed, "shard": i,
                                      "nshards": n, "case": 0, "mode": f"miri-{what}", "tier": tier, "detail": {"stderr_tail": err[-3000:]}})
        elif pm:
            rep["violations"].append({"property": prop, "signature": "miri-monitor-assertion:" + pm.group(2)[:100], "seed": seed, "shard": i,
                                      "nshards": n, "case": 0, "mode": f"miri-{what}", "tier": tier, "detail": {"stderr_tail": err[-3000:]}})
        else:
            rep["harness_errors"].append(f"miri process {i} failed without a recognisable report: rc={p.returncode} {err[-400:]}")
rep["wall_s"] = time.time() - t0
print(json.dumps(rep))
