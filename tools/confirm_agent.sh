#!/bin/bash
# tools/confirm_agent.sh <worktree> <seeded-dir>: confirm an agent's seeded change in its worktree:
# suite passes with the change, the demo fails with it and passes without it. Writes confirm.txt.
wt="$1"; out="$(realpath "$2")/confirm.txt"; cd "$wt" || exit 2
demo=$(ls demo/*.rs 2>/dev/null | head -1); name=$(basename "$demo" .rs)
extra=""; grep -q 'verif::' "$demo" 2>/dev/null && extra="--features verif"
{
echo "worktree $wt demo test $name $extra"
git stash list >/dev/null
# make sure exactly the agent's patch is applied
git checkout -q -- src 2>/dev/null; git apply mutation.diff || echo "PATCH DOES NOT APPLY"
echo "-- suite with the change (the demo test is reported separately):"
CARGO_NET_OFFLINE=true cargo nextest run --workspace --no-fail-fast --test-threads 8 --offline $extra 2>&1 | grep -E "Summary|FAIL \[" | sort -u | head -8
echo "-- demo without the change:"
git apply -R mutation.diff
CARGO_NET_OFFLINE=true cargo nextest run --offline $extra --test "$name" --no-fail-fast 2>&1 | grep -E "Summary|FAIL \[" | sort -u | head -5
git apply mutation.diff
} > "$out" 2>&1
cat "$out"
