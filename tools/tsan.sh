#!/usr/bin/env python3
"""ThreadSanitizer sub-run: tools/tsan.sh <prop> <tier> <seed> <Cnn>.
Builds the harness (and std, -Zbuild-std) with -Zsanitizer=thread into .target-tsan and repeats the
property's concurrent workload at several seeds. Reports are de-duplicated by their stack frames with
line numbers stripped. Prints one JSON shard report."""
import json, os, re, subprocess, sys, tempfile, time
from concurrent.futures import ThreadPoolExecutor

prop, tier, seed, target = sys.argv[1], sys.argv[2], int(sys.argv[3]), sys.argv[4]
ROOT = os.path.dirname(os.path.dirname(os.path.abspath(__file__)))
TDIR = os.path.join(ROOT, ".target-tsan")
BIN = os.path.join(TDIR, "x86_64-unknown-linux-gnu", "release", "vcheck")
rep = {"property": prop, "mode": f"tsan-{target}", "evaluations": 0, "nontrivial": [], "samples": [], "violations": [],
       "counters": {}, "sets": {}, "notes": [], "harness_errors": []}
t0 = time.time()
env = dict(os.environ, CARGO_NET_OFFLINE="true", RUSTFLAGS="-Zsanitizer=thread")
b = subprocess.run(["cargo", "+nightly", "build", "-Zbuild-std", "--target", "x86_64-unknown-linux-gnu", "--release", "--offline",
                    "--target-dir", TDIR], cwd=os.path.join(ROOT, "harness"), env=env, stdout=subprocess.PIPE,
                   stderr=subprocess.STDOUT, text=True)
if b.returncode != 0:
    rep["harness_errors"].append("ThreadSanitizer build failed: " + b.stdout[-800:])
    print(json.dumps(rep))
    sys.exit(0)
rep["counters"]["tsan_build_s"] = int(time.time() - t0)
budget = 45 if tier == "thorough" else 10
runs = 5 if tier == "thorough" else 2

def one(i):
    out = tempfile.NamedTemporaryFile(suffix=".json", delete=False).name
    e = dict(os.environ, VCHECK_BUDGET_S=str(budget), TSAN_OPTIONS="halt_on_error=0 exitcode=66 second_deadlock_stack=1 suppressions=" + os.path.join(ROOT, "tools", "tsan.supp"))
    p = subprocess.run([BIN, target, "--tier", "thorough", "--seed", str(seed * 100 + i), "--shard", f"{i}/{runs}", "--out", out],
                       env=e, stdout=subprocess.PIPE, stderr=subprocess.PIPE, text=True, timeout=budget * 8 + 300)
    inner = None
    if os.path.exists(out):
        try:
            inner = json.load(open(out))
        except Exception:
            pass
        os.remove(out)
    return i, p, inner

try:
    with ThreadPoolExecutor(max_workers=runs) as ex:
        results = list(ex.map(one, range(runs)))
except subprocess.TimeoutExpired:
    rep["harness_errors"].append("ThreadSanitizer run exceeded its watchdog")
    results = []
seen = set()
for i, p, inner in results:
    if inner is None:
        rep["harness_errors"].append(f"tsan run {i} produced no report rc={p.returncode}: {p.stderr[-300:]}")
        continue
    rep["evaluations"] += inner.get("evaluations", 0)
    rep["nontrivial"] += inner.get("nontrivial", [])[:3000]
    for k, v in inner.get("counters", {}).items():
        rep["counters"]["tsan_" + k] = rep["counters"].get("tsan_" + k, 0) + v
    for k, v in inner.get("sets", {}).items():
        rep["sets"].setdefault("tsan_" + k, [])
        rep["sets"]["tsan_" + k] += v[:3000]
    rep["violations"] += inner.get("violations", [])
    rep["harness_errors"] += inner.get("harness_errors", [])
    blocks = re.findall(r"WARNING: ThreadSanitizer: [^\n]*\n(?:.*\n)*?SUMMARY: [^\n]*", p.stderr)
    rep["counters"]["tsan_reports"] = rep["counters"].get("tsan_reports", 0) + len(blocks)
    for blk in blocks:
        frames = re.findall(r"#\d+ ([^\s]+)", blk)
        key = "|".join(f for f in frames if "iroh_docs" in f or "vcheck" in f)[:300] or "|".join(frames[:6])
        if key in seen:
            continue
        seen.add(key)
        first = re.search(r"WARNING: ThreadSanitizer: ([^\n(]*)", blk).group(1).strip()
        frame = next((f for f in frames if "iroh_docs" in f), frames[0] if frames else "?")
        rep["violations"].append({"property": prop, "signature": f"tsan:{first}@{frame[:80]}", "seed": seed, "shard": i, "nshards": runs,
                                  "case": 0, "mode": f"tsan-{target}", "tier": tier, "detail": {"report": blk[-3000:]}})
rep["counters"].setdefault("tsan_reports", 0)
rep["samples"].append({"tsan": {"target": target, "runs": runs, "budget_s": budget, "reports": rep["counters"]["tsan_reports"]}})
rep["wall_s"] = time.time() - t0
print(json.dumps(rep))
