#!/usr/bin/env python3
"""Hand-written mutations (the 'Catches' lists of DESIGN.md): apply each to /repo, run the repository's
test-suite (hooks off) and the quick checks of the named properties, record everything under
seeded/own-<name>/, undo. Usage: tools/own_mutations.py [name ...]"""
import json, os, subprocess, sys

M = [
 # name, file, old, new, properties, what, needs
 ("put-le-to-lt", "src/ranger.rs", "if entry.value() <= prefix_entry.value() {", "if entry.value() < prefix_entry.value() {",
  ["C02", "C12"], "an entry equal to the one held is stored again instead of being refused", "re-offer of an identical entry (duplicate delivery)"),
 ("diff-ge-to-gt", "src/ranger.rs", "&& their_entry.value() >= our_entry.value()", "&& their_entry.value() > our_entry.value()",
  ["C01", "C08"], "entries both sides hold identically are sent back during reconciliation", "a range item exchange over a shared entry"),
 ("fingerprint-without-timestamp", "src/sync.rs", "        hasher.update(&self.timestamp().to_be_bytes());\n", "",
  ["C01", "C04"], "the range fingerprint ignores the timestamp", "two replicas holding the same key with the same content but different timestamps"),
 ("import-overwrites-capability", "src/store/fs.rs", "                        (existing, outcome)\n", "                        let _ = existing;\n                        (capability, outcome)\n",
  ["C07"], "importing a capability stores the imported one instead of the merged one", "a read-only import after the write secret was imported"),
 ("news-ge", "src/heads.rs", ".map(|ts_theirs| *ts_ours > ts_theirs)", ".map(|ts_theirs| *ts_ours >= ts_theirs)",
  ["C13"], "equal heads are reported as news", "a sync report naming exactly our head"),
 ("policy-nothing-except-all", "src/store.rs", "                patterns.iter().any(|pattern| pattern.matches(key))", "                !patterns.is_empty() && patterns.iter().all(|pattern| pattern.matches(key))",
  ["C15", "C12"], "a nothing-except policy needs every filter to match", "a policy with two or more filters"),
 ("remove-leaves-policy", "src/store/fs.rs", "            tables.download_policy.remove(namespace.as_bytes())?;\n", "",
  ["C16"], "document removal leaves its download policy behind", "a document with a non-default policy is removed and re-created"),
 ("peers-refresh-duplicates", "src/store/fs.rs", "                                tables\n                                    .namespace_peers\n                                    .remove(namespace, (prev_nanos, peer))?;\n", "                                let _ = prev_nanos;\n",
  ["C17"], "re-registering a known peer (not the oldest) keeps its old row", "a peer that is neither new nor the oldest is registered again"),
 ("migration-head-min", "src/store/fs/migrations.rs", "                if timestamp >= e.0 {", "                if timestamp <= e.0 {",
  ["C18"], "the head rebuild keeps the oldest instead of the newest timestamp", "an old database without the head table, author with several timestamps"),
 ("future-bound-ge", "src/sync.rs", "    if entry.timestamp() > now + MAX_TIMESTAMP_FUTURE_SHIFT {", "    if entry.timestamp() >= now + MAX_TIMESTAMP_FUTURE_SHIFT {",
  ["C03"], "an entry exactly ten minutes ahead is refused", "timestamp exactly at the bound"),
 ("frame-max-lt", "src/net/codec.rs", "            frame_len <= MAX_MESSAGE_SIZE,\n            \"received", "            frame_len < MAX_MESSAGE_SIZE,\n            \"received",
  ["C09"], "a frame of exactly the maximal size is rejected", "length prefix 2^30"),
 ("event-on-not-inserted", "src/ranger.rs", "                    if let InsertOutcome::Inserted { .. } = outcome {\n                        on_insert_cb(self, entry, content_status).await;\n                    }", "                    let _ = outcome;\n                    on_insert_cb(self, entry, content_status).await;",
  ["C12", "C03"], "reconciliation announces entries that were not inserted", "a superseded entry inside a reconciliation message"),
 ("open-overwrites-sync", "src/actor.rs", "                state.sync = state.sync || opts.sync;", "                state.sync = opts.sync;",
  ["C14"], "an additional open without sync switches sync off", "open(sync) followed by open(no sync)"),
 ("wrap-range-includes-y", "src/store/fs.rs", "                // iterator for entries from start to range.y\n                let end = Bound::Excluded(range.y().to_byte_tuple());", "                // iterator for entries from start to range.y\n                let end = Bound::Included(range.y().to_byte_tuple());",
  ["C08", "C01"], "a wrap-around range includes its upper bound", "a wrap-around range whose y is a held key"),
 ("bob-abort-breaks", "src/net/codec.rs", "                (Message::Abort { .. }, _) => {\n                    return Err(self.fail(anyhow!(\"unexpected sync abort message\")));\n                }", "                (Message::Abort { .. }, _) => {\n                    self.progress = None;\n                    break;\n                }",
  ["C10"], "the acceptor treats an Abort frame as the end of the session and forgets its progress", "a peer that sends Abort to the accepting side"),
 ("offset-le", "src/store/fs/query.rs", "if self.offset < self.query.offset() && matches!(next, Some(Ok(_))) {", "if self.offset <= self.query.offset() && self.query.offset() > 0 && matches!(next, Some(Ok(_))) {",
  ["C05"], "a non-zero offset skips one entry too many", "a query with offset >= 1"),
 ("resync-flag-not-cleared", "src/engine/state.rs", "        self.resync_requested = false;\n    }\n}", "    }\n}",
  ["C11"], "the resync flag survives the start of the next session", "a refused sync report, then a later unrelated session finishing"),
 ("snapshot-skips-commit", "src/store/fs.rs", "            CurrentTransaction::Write(w) => {\n                w.commit()?;\n                let tx = self.db.begin_read()?;\n                ReadOnlyTables::new(tx)?\n            }\n            CurrentTransaction::Read(tables) => tables,", "            CurrentTransaction::Write(w) => {\n                drop(w);\n                let tx = self.db.begin_read()?;\n                ReadOnlyTables::new(tx)?\n            }\n            CurrentTransaction::Read(tables) => tables,",
  ["C06", "C07"], "taking the shared read snapshot (list_namespaces / list_authors) discards the open write transaction", "writes followed by a listing call before any flush"),
 ("close-ignores-count", "src/actor.rs", "                state.handles = state.handles.wrapping_sub(1);\n                if state.handles == 0 {", "                state.handles = state.handles.wrapping_sub(1);\n                if state.handles <= 1 {",
  ["C14"], "the document is closed when one handle is still held", "two opens followed by one close"),
 ("accept-tiebreak-symmetric", "src/engine/state.rs", "    if self_node_id.as_bytes() > other_node_id.as_bytes() {\n        SyncDirection::Accept", "    if self_node_id.as_bytes() != other_node_id.as_bytes() {\n        SyncDirection::Accept",
  ["C11"], "both nodes accept when dials cross", "simultaneous dials"),
 ("by-key-exact-end-exclusive", "src/store/fs/bounds.rs", "                Self(Bound::Included(start), Bound::Included(end))", "                Self(Bound::Included(start), Bound::Excluded(end))",
  ["C05"], "exact-key lookups in the by-key index exclude the author id ff..ff", "none in practice (author id FF..FF); expected to be unobservable"),
 ("heads-limit-no-pop", "src/heads.rs", "                    items.pop();\n                    break;", "                    break;",
  ["C13"], "the limited head encoding keeps the element that exceeded the limit", "a size limit smaller than the full encoding"),
]

ROOT = "/verif"

def sh(cmd, cwd=None, timeout=3600):
    p = subprocess.run(cmd, shell=True, cwd=cwd, stdout=subprocess.PIPE, stderr=subprocess.STDOUT, text=True, timeout=timeout)
    return p.returncode, p.stdout

def main():
    want = set(sys.argv[1:])
    for name, f, old, new, props, what, needs in M:
        if want and name not in want:
            continue
        d = os.path.join(ROOT, "seeded", f"own-{name}")
        os.makedirs(d, exist_ok=True)
        if sh("git diff --quiet", cwd="/repo")[0] != 0:
            print("repo dirty"); sys.exit(2)
        path = os.path.join("/repo", f)
        s = open(path).read()
        if s.count(old) != 1:
            print(f"{name}: pattern occurs {s.count(old)} times — skipped"); continue
        open(path, "w").write(s.replace(old, new))
        try:
            _, diff = sh("git diff", cwd="/repo")
            open(os.path.join(d, "patch.diff"), "w").write(diff)
            rc, out = sh("CARGO_NET_OFFLINE=true cargo nextest run --workspace --no-fail-fast --test-threads 8 --offline 2>&1 | tail -15", cwd="/repo")
            summary = [l for l in out.splitlines() if "Summary" in l or "FAIL [" in l]
            tests_pass = any("Summary" in l and "failed" not in l for l in summary)
            results = {}
            for p in props:
                rc, out = sh(f"./check {p} --tier quick", cwd=ROOT)
                sigs = sorted({l.split("[", 1)[1].rsplit("]:", 1)[0] for l in out.splitlines() if l.strip().startswith("witness [")})
                results[p] = {"exit": rc, "signatures": sigs}
            meta = {"property": props[0], "origin": "hand-written mutation (DESIGN.md 'Catches' lists)", "what": what, "needs_to_manifest": needs,
                    "existing_tests_pass": tests_pass, "test_summary": summary, "checks": results,
                    "caught": any(r["exit"] == 1 for r in results.values()),
                    "ran": f"tools/own_mutations.py {name}"}
            json.dump(meta, open(os.path.join(d, "meta.json"), "w"), indent=1)
            print(f"{name}: tests_pass={tests_pass} " + " ".join(f"{p}:rc={r['exit']}{r['signatures'][:2]}" for p, r in results.items()), flush=True)
        finally:
            sh("git checkout -- .", cwd="/repo")

main()
