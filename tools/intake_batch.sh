#!/bin/bash
# tools/intake_batch.sh <round> <Cnn>...: intake of several sub-agent changes one after the other
# (tools/intake.sh), removing each scratch worktree with its build output afterwards.
r="$1"; shift
for p in "$@"; do
  echo "=== $p $(date +%T)"
  /verif/tools/intake.sh "$p" "$r" 2>&1 | tail -12
  git -C /repo worktree remove --force /tmp/wt-r$r-$p 2>/dev/null || rm -rf /tmp/wt-r$r-$p
  git -C /repo worktree prune
done
echo "=== batch done $(date +%T)"
