#!/usr/bin/env python3
"""valgrind memcheck sub-run on the normal harness binary: tools/memcheck.sh <prop> <tier> <seed> <Cnn>.
One small shard of the property's workload (decoders incl. native blake3 / ed25519 code for C09, the
redb reopen / repair path on crash images for C06). Prints one JSON shard report."""
import json, os, re, subprocess, sys, tempfile, time

prop, tier, seed, target = sys.argv[1], sys.argv[2], int(sys.argv[3]), sys.argv[4]
ROOT = os.path.dirname(os.path.dirname(os.path.abspath(__file__)))
BIN = os.path.join(os.environ.get("VCHECK_TARGET") or os.path.join(ROOT, ".target"), "release", "vcheck")
rep = {"property": prop, "mode": f"memcheck-{target}", "evaluations": 0, "nontrivial": [], "samples": [], "violations": [],
       "counters": {}, "sets": {}, "notes": [], "harness_errors": []}
t0 = time.time()
out = tempfile.NamedTemporaryFile(suffix=".json", delete=False).name
log = out + ".vg"
budget = 60 if tier == "thorough" else 15
mode = ["--mode", "images"] if target == "C06" else []
cmd = ["valgrind", "--error-exitcode=99", "--leak-check=no", "--num-callers=20", f"--log-file={log}", "-q",
       BIN, target, "--tier", "quick", "--seed", str(seed), "--shard", "0/1", "--out", out] + mode
try:
    p = subprocess.run(cmd, env=dict(os.environ, VCHECK_BUDGET_S=str(budget)), stdout=subprocess.PIPE, stderr=subprocess.PIPE,
                       text=True, timeout=budget * 6 + 600)
    vg = open(log).read() if os.path.exists(log) else ""
    errors = re.findall(r"==\d+== (Invalid (?:read|write|free)[^\n]*|Conditional jump[^\n]*|Use of uninitialised[^\n]*|Mismatched free[^\n]*|Source and destination overlap[^\n]*)", vg)
    if os.path.exists(out):
        inner = json.load(open(out))
        rep["evaluations"] = inner.get("evaluations", 0)
        rep["nontrivial"] = inner.get("nontrivial", [])[:5000]
        rep["counters"] = {f"memcheck_{k}": v for k, v in inner.get("counters", {}).items()}
        rep["violations"] = inner.get("violations", [])
        rep["harness_errors"] = inner.get("harness_errors", [])
    elif p.returncode not in (0, 99):
        rep["harness_errors"].append(f"valgrind run failed rc={p.returncode}: {p.stderr[-500:]}")
    rep["counters"]["memcheck_reports"] = len(errors)
    if errors:
        # dedupe by first line + first in-repo frame
        blocks = re.split(r"\n==\d+== \n", vg)
        seen = set()
        for b in blocks:
            m = re.search(r"== (Invalid [^\n]*|Conditional jump[^\n]*|Use of uninitialised[^\n]*)", b)
            if not m:
                continue
            frame = re.search(r"(iroh_docs::[A-Za-z0-9_:<>]+)", b)
            sig = "memcheck:" + m.group(1)[:60] + "@" + (frame.group(1)[:80] if frame else "?")
            if sig in seen:
                continue
            seen.add(sig)
            rep["violations"].append({"property": prop, "signature": sig, "seed": seed, "shard": 0, "nshards": 1, "case": 0,
                                      "mode": f"memcheck-{target}", "tier": tier, "detail": {"report": b[-2500:]}})
    rep["samples"].append({"memcheck": {"target": target, "budget_s": budget, "cases_under_valgrind": rep["evaluations"], "reports": len(errors)}})
except subprocess.TimeoutExpired:
    rep["harness_errors"].append("valgrind run exceeded its watchdog")
finally:
    for f in (out, log):
        try:
            os.remove(f)
        except OSError:
            pass
rep["wall_s"] = time.time() - t0
print(json.dumps(rep))
