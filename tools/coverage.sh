#!/bin/bash
# tools/coverage.sh [quick|thorough] [Cnn ...]: which lines of /repo/src do the monitors' workloads execute?
# Builds the harness with -Cinstrument-coverage into .target-cov, runs the named checks (default: all,
# quick tier), merges the profiles and prints per-file line coverage of /repo/src plus the list of
# functions of the property-anchored files that no workload entered (.cov/uncovered-functions.txt).
# Not a check and not evidence: a map of what the checks cannot have observed.
set -u
cd "$(dirname "$0")/.."
tier="${1:-quick}"; shift || true
props=("$@"); [ ${#props[@]} -eq 0 ] && props=(C01 C02 C03 C04 C05 C06 C07 C08 C09 C10 C11 C12 C13 C14 C15 C16 C17 C18)
# llvm-profdata / llvm-cov are installed with the nightly toolchain only, and the profile format must
# match the compiler, so the instrumented build uses nightly as well.
export RUSTUP_TOOLCHAIN=nightly
SYSROOT=$(rustc --print sysroot); LLVM=$(ls -d "$SYSROOT"/lib/rustlib/*/bin | head -1)
rm -rf .cov; mkdir -p .cov/raw .cov/evidence
export VCHECK_TARGET=/verif/.target-cov VCHECK_EVIDENCE_DIR=/verif/.cov/evidence
export RUSTFLAGS="-Cinstrument-coverage" LLVM_PROFILE_FILE="/verif/.cov/raw/%p-%8m.profraw"
for p in "${props[@]}"; do
  ./check "$p" --tier "$tier" 2>/dev/null | tail -1
done
"$LLVM/llvm-profdata" merge -sparse .cov/raw/*.profraw -o .cov/all.profdata || exit 2
rm -rf .cov/raw
IGN='(\.cargo|rustc|rustup|/verif/|^verif/)'
"$LLVM/llvm-cov" report .target-cov/release/vcheck -instr-profile=.cov/all.profdata --ignore-filename-regex="$IGN" 2>/dev/null \
  | grep -E "repo/src|^TOTAL|^Filename" | awk '{printf "%-44s lines %5s missed %5s  %7s   functions %4s missed %4s\n",$1,$8,$9,$10,$5,$6}' > .cov/report.txt
"$LLVM/llvm-cov" show .target-cov/release/vcheck -instr-profile=.cov/all.profdata --ignore-filename-regex="$IGN" -format=text 2>/dev/null > .cov/show.txt
"$LLVM/llvm-cov" export .target-cov/release/vcheck -instr-profile=.cov/all.profdata --ignore-filename-regex="$IGN" -format=text 2>/dev/null > .cov/export.json
python3 - <<'PY'
import json, subprocess
d = json.load(open('/verif/.cov/export.json'))
seen = {}
for f in d['data'][0]['functions']:
    files = [x for x in f['filenames'] if 'repo/src' in x]
    if not files:
        continue
    name = f['name']
    try:
        name = subprocess.run(['rustfilt'], input=name, text=True, capture_output=True).stdout.strip() or name
    except Exception:
        pass
    key = (files[0], f['regions'][0][0], name.split('::h')[0])
    seen[key] = max(seen.get(key, 0), f['count'])
with open('/verif/.cov/uncovered-functions.txt', 'w') as out:
    for (fn, line, name), c in sorted(seen.items()):
        if c == 0:
            out.write(f"{fn}:{line} {name}\n")
print(sum(1 for c in seen.values() if c == 0), "of", len(seen), "functions of /repo/src never entered -> .cov/uncovered-functions.txt")
PY
cat .cov/report.txt
