#!/bin/bash
# tools/seed_try_iso.sh <patch> <Cnn> [more props...]: like seed_try.sh, but without touching /repo: the
# patch is applied to a scratch worktree of /repo (/tmp/repo-mut, HEAD), and the checks are built from a
# copy of harness/ that depends on that worktree, into their own target directory. Evidence of these
# runs goes to /tmp/ev-mut. Can run while other checks or sweeps use /repo.
patch="$(realpath "$1")"; shift
mut=/tmp/repo-mut; hm=/tmp/harness-mut
if [ ! -d $mut ]; then git -C /repo worktree add -q --detach $mut HEAD || exit 2; fi
git -C $mut checkout -q -- . && git -C $mut clean -fdq src && git -C $mut checkout -q --detach "$(git -C /repo rev-parse HEAD)"
git -C $mut apply "$patch" || { echo "patch does not apply"; exit 2; }
rsync -a --delete --exclude target /verif/harness/ $hm/
sed -i 's#path = "/repo"#path = "/tmp/repo-mut"#' $hm/Cargo.toml
sed -i 's#target-dir = "/verif/.target"#target-dir = "/verif/.target-mut"#' $hm/.cargo/config.toml
cd /verif
for p in "$@"; do
  out=$(VCHECK_HARNESS=$hm VCHECK_TARGET=/verif/.target-mut VCHECK_EVIDENCE_DIR=/tmp/ev-mut ./check "$p" --tier quick 2>&1)
  rc=$?
  sigs=$(echo "$out" | grep -o "witness \[[^]]*\]" | sort -u | tr '\n' ' ')
  echo "$p rc=$rc $(echo "$out" | grep -E '^(HELD|INCONCLUSIVE)' | head -1 | cut -c1-80) $sigs"
done
git -C $mut checkout -q -- .
