// Does a oneshot sender that is put into an mpsc channel while the receiver is being dropped
// stay alive (so that its receiver waits forever) as long as another mpsc sender exists?
use std::time::Duration;
use tokio::sync::{mpsc, oneshot};

#[tokio::main(flavor = "multi_thread", worker_threads = 2)]
async fn main() {
    let mut stuck = 0u64;
    let n: u64 = std::env::args().nth(1).and_then(|s| s.parse().ok()).unwrap_or(200_000);
    for i in 0..n {
        let (start_tx, mut handler) = mpsc::channel::<oneshot::Sender<u8>>(4);
        let keep = start_tx.clone(); // the callback object keeps a sender, as ProtectCb does
        let task = tokio::spawn(async move {
            while let Some(reply) = handler.recv().await {
                let _ = reply.send(1);
            }
        });
        let aborter = tokio::spawn(async move {
            if i % 3 == 0 { tokio::task::yield_now().await; }
            task.abort();
        });
        let (tx, rx) = oneshot::channel();
        let sent = start_tx.send(tx).await.is_ok();
        if sent {
            match tokio::time::timeout(Duration::from_millis(std::env::args().nth(2).and_then(|s| s.parse().ok()).unwrap_or(300)), rx).await {
                Ok(_) => {}
                Err(_) => { stuck += 1; }
            }
        }
        let _ = aborter.await;
        drop(keep);
    }
    println!("iterations {n} stuck {stuck}");
}
