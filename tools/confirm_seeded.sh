#!/bin/bash
# tools/confirm_seeded.sh <seeded-dir>...: confirm seeded changes in a scratch worktree of /repo
# (created on demand at /tmp/wt-confirm, warm target copied once): suite passes with the change,
# the demonstration fails with it and passes without it. Writes <seeded-dir>/confirm.txt.
wt=/tmp/wt-confirm
if [ ! -d $wt ]; then
  git -C /repo worktree add -q --detach $wt HEAD && rsync -a --exclude incremental --exclude examples /repo/target/ $wt/target/
fi
for sd in "$@"; do
  sd=$(realpath "$sd")
  (cd $wt && git checkout -q -- . && git clean -fdq -e target tests demo . ; rm -rf demo mutation.diff; rm -f tests/*.rs.orig)
  # remove demo tests of earlier runs
  (cd $wt && git clean -fdq tests)
  cp "$sd/patch.diff" $wt/mutation.diff; mkdir -p $wt/demo; cp "$sd"/demo/*.rs $wt/demo/; cp "$sd"/demo/*.rs $wt/tests/
  /verif/tools/confirm_agent.sh $wt "$sd" > /dev/null 2>&1
  echo "== $(basename $sd)"; grep -E "Summary|DOES NOT" "$sd/confirm.txt"
done
