#!/bin/bash
# tools/sweep.sh <tier> <seed> [props...]: run checks one after the other, log verdict lines.
tier=$1; seed=$2; shift 2
props=${@:-C01 C02 C03 C04 C05 C06 C07 C08 C09 C10 C11 C12 C13 C14 C15 C16 C17 C18}
cd "$(dirname "$0")/.."
# own build and evidence directories: a sweep (usually started with `vp run` from a snapshot) must not
# race with checks run in /verif nor replace its evidence files
export VCHECK_TARGET=/verif/.target-sweep VCHECK_EVIDENCE_DIR=$PWD/.sweep-evidence
for p in $props; do
  out=$(./check $p --tier $tier --seed $seed 2>&1); rc=$?
  echo "$(date +%H:%M:%S) $p rc=$rc $(echo "$out" | grep -E '^(HELD|VIOLATION|INCONCLUSIVE|KNOWN)' | head -3 | tr '\n' ' ')"
  if [ $rc -ne 0 ]; then echo "$out" | tail -40 > /tmp/sweep-$tier-$seed-$p.log; fi
done
